use std::time::Instant;
use vcheck::checks;
use vcheck::{RunCtx, Tier, finish, install_panic_hook};

fn usage() -> ! {
    eprintln!("usage: vcheck <ID> [--tier quick|thorough] [--replay <path>] | vcheck worker <ID> --shard i --of n ...");
    std::process::exit(2)
}

fn main() {
    install_panic_hook();
    vcheck::capture_stdout();
    let args: Vec<String> = std::env::args().skip(1).collect();
    if args.is_empty() {
        usage();
    }
    // debugging aid: vcheck checker <problem.json> <matrix.json> <solution.json> runs the repository's solution checker
    if args[0] == "checker" && args.len() == 4 {
        let read = |p: &String| serde_json::from_str::<serde_json::Value>(&std::fs::read_to_string(p).expect("cannot read")).expect("not json");
        eprintln!("{:?}", checks::c12::run_checker(&read(&args[1]), &[read(&args[2])], &read(&args[3])));
        return;
    }
    let is_worker = args[0] == "worker";
    let rest = if is_worker { &args[1..] } else { &args[..] };
    if rest.is_empty() {
        usage();
    }
    let id = rest[0].to_uppercase();
    let mut tier = match std::env::var("VERIF_TIER").ok().as_deref() {
        Some("thorough") => Tier::Thorough,
        _ => Tier::Quick,
    };
    let mut seed: u64 = std::env::var("VERIF_SEED").ok().and_then(|s| s.parse().ok()).unwrap_or(0);
    let mut replay: Option<String> = None;
    let mut extra: Vec<(String, String)> = vec![];
    let mut i = 1;
    while i < rest.len() {
        let key = rest[i].as_str();
        let val = rest.get(i + 1).cloned();
        match (key, val) {
            ("--tier", Some(v)) => {
                tier = if v == "thorough" { Tier::Thorough } else { Tier::Quick };
            }
            ("--seed", Some(v)) => seed = v.parse().unwrap_or(0),
            ("--replay", Some(v)) => replay = Some(v),
            (k, Some(v)) if k.starts_with("--") => extra.push((k.trim_start_matches("--").to_string(), v)),
            _ => usage(),
        }
        i += 2;
    }
    let threads = std::env::var("VERIF_THREADS").ok().and_then(|s| s.parse().ok()).unwrap_or_else(|| {
        std::thread::available_parallelism().map(|n| n.get()).unwrap_or(4)
    });
    let ctx = RunCtx { id: id.clone(), tier, seed, threads };

    if is_worker {
        let code = checks::worker(&ctx, &extra);
        std::process::exit(code);
    }

    let started = Instant::now();
    if let Some(path) = replay {
        let code = checks::replay(&ctx, &path);
        std::process::exit(code);
    }
    let Some(report) = checks::run(&ctx) else {
        eprintln!("unknown check {id}");
        std::process::exit(2)
    };
    let code = finish(&ctx, report, started);
    std::process::exit(code);
}
