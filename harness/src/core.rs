//! Shared machinery: run context, reports, violations, known findings, evidence files,
//! panic capture and the sharded worker driver.

use serde_json::{Map, Value, json};
use std::cell::RefCell;
use std::collections::BTreeMap;
use std::panic::{AssertUnwindSafe, catch_unwind};
use std::path::{Path, PathBuf};
use std::time::Instant;

pub const VERIF_ROOT: &str = "/verif";

/// Where `out/<ID>/` and `evidence/` are written: /verif, unless the seed re-run tooling (tools/iso_seeds.sh) redirects
/// them so that runs against a patched scratch copy never touch the evidence of the real tree.
pub fn out_root() -> PathBuf {
    std::env::var("VERIF_OUT_ROOT").map(PathBuf::from).unwrap_or_else(|_| PathBuf::from(VERIF_ROOT))
}

// ---------------------------------------------------------------------------------------------
// own stdout: the library prints log lines to stdout (default logger); fd 1 is redirected to /dev/null at start
// and everything the harness reports goes through `out!` to the saved descriptor.

static OUT_FD: std::sync::atomic::AtomicI32 = std::sync::atomic::AtomicI32::new(1);

pub fn capture_stdout() {
    unsafe {
        let saved = libc::dup(1);
        let null = libc::open(c"/dev/null".as_ptr(), libc::O_WRONLY);
        if saved >= 0 && null >= 0 {
            libc::dup2(null, 1);
            libc::close(null);
            OUT_FD.store(saved, std::sync::atomic::Ordering::SeqCst);
        }
    }
}

pub fn write_out(text: &str) {
    let fd = OUT_FD.load(std::sync::atomic::Ordering::SeqCst);
    let bytes = text.as_bytes();
    let mut off = 0;
    while off < bytes.len() {
        let n = unsafe { libc::write(fd, bytes[off..].as_ptr() as *const libc::c_void, bytes.len() - off) };
        if n <= 0 {
            break;
        }
        off += n as usize;
    }
}

#[macro_export]
macro_rules! out {
    ($($arg:tt)*) => {{
        let mut s = format!($($arg)*);
        s.push('\n');
        $crate::core::write_out(&s);
    }};
}

#[derive(Clone, Copy, Debug, PartialEq, Eq)]
pub enum Tier {
    Quick,
    Thorough,
}

impl Tier {
    pub fn name(&self) -> &'static str {
        match self {
            Tier::Quick => "quick",
            Tier::Thorough => "thorough",
        }
    }
    pub fn is_quick(&self) -> bool {
        matches!(self, Tier::Quick)
    }
    /// Picks a value by tier.
    pub fn pick<T>(&self, quick: T, thorough: T) -> T {
        match self {
            Tier::Quick => quick,
            Tier::Thorough => thorough,
        }
    }
}

#[derive(Clone, Debug)]
pub struct RunCtx {
    pub id: String,
    pub tier: Tier,
    pub seed: u64,
    pub threads: usize,
}

/// A single violation of a property found by a check.
#[derive(Clone, Debug)]
pub struct Violation {
    /// Identifies the failing class (input class / call site / history class): used to match known findings.
    pub key: String,
    /// Human readable description: expected vs observed.
    pub what: String,
    /// Everything needed to replay: scenario parameters, choice trace, seeds.
    pub scenario: Value,
}

impl Violation {
    pub fn new(key: impl Into<String>, what: impl Into<String>, scenario: Value) -> Self {
        Self { key: key.into(), what: what.into(), scenario }
    }
}

/// Result of a check run.
#[derive(Default)]
pub struct Report {
    pub level: String,
    pub coverage: Map<String, Value>,
    pub assumptions: Vec<String>,
    pub violations: Vec<Violation>,
    /// Machinery failures (never a verdict): exit code 2.
    pub errors: Vec<String>,
}

impl Report {
    pub fn new(level: &str) -> Self {
        Self { level: level.to_string(), ..Default::default() }
    }
    pub fn set(&mut self, key: &str, value: impl Into<Value>) -> &mut Self {
        self.coverage.insert(key.to_string(), value.into());
        self
    }
    pub fn add_count(&mut self, key: &str, n: u64) {
        let cur = self.coverage.get(key).and_then(|v| v.as_u64()).unwrap_or(0);
        self.coverage.insert(key.to_string(), json!(cur + n));
    }
    pub fn get_count(&self, key: &str) -> u64 {
        self.coverage.get(key).and_then(|v| v.as_u64()).unwrap_or(0)
    }
    pub fn sample(&mut self, value: Value) {
        let samples = self.coverage.entry("samples".to_string()).or_insert_with(|| json!([]));
        if let Some(arr) = samples.as_array_mut() {
            if arr.len() < 6 {
                arr.push(value);
            }
        }
    }
    pub fn assume(&mut self, text: &str) {
        if !self.assumptions.iter().any(|a| a == text) {
            self.assumptions.push(text.to_string());
        }
    }
    pub fn violation(&mut self, v: Violation) {
        self.violations.push(v);
    }
    pub fn error(&mut self, e: impl Into<String>) {
        self.errors.push(e.into());
    }
    /// Merges sub-report (e.g. from a part of the check) into this one: counters are added.
    pub fn merge(&mut self, other: Report) {
        for (k, v) in other.coverage {
            match (&v, self.coverage.get(&k)) {
                (Value::Number(n), Some(Value::Number(_))) if n.is_u64() => {
                    self.add_count(&k, n.as_u64().unwrap());
                }
                (Value::Array(items), Some(Value::Array(_))) if k == "samples" => {
                    for item in items {
                        self.sample(item.clone());
                    }
                }
                (Value::Bool(b), Some(Value::Bool(cur))) => {
                    let merged = if k == "exhaustive" { *b && *cur } else { *b || *cur };
                    self.coverage.insert(k, json!(merged));
                }
                _ => {
                    self.coverage.insert(k, v);
                }
            }
        }
        for a in other.assumptions {
            self.assume(&a);
        }
        self.violations.extend(other.violations);
        self.errors.extend(other.errors);
    }
}

// ---------------------------------------------------------------------------------------------
// panic capture

thread_local! {
    static LAST_PANIC: RefCell<Option<String>> = const { RefCell::new(None) };
    static QUIET: RefCell<bool> = const { RefCell::new(false) };
}

/// Installs a panic hook which records message + location; silent inside `catch`.
static LAST_PANIC_ANY_THREAD: std::sync::Mutex<Option<String>> = std::sync::Mutex::new(None);

pub fn install_panic_hook() {
    let default = std::panic::take_hook();
    std::panic::set_hook(Box::new(move |info| {
        let msg = if let Some(s) = info.payload().downcast_ref::<&str>() {
            s.to_string()
        } else if let Some(s) = info.payload().downcast_ref::<String>() {
            s.clone()
        } else {
            "<non-string panic>".to_string()
        };
        let loc = info.location().map(|l| format!("{}:{}", l.file(), l.line())).unwrap_or_default();
        LAST_PANIC.with(|p| *p.borrow_mut() = Some(format!("{msg} @ {loc}")));
        // a panic on a pool thread is re-raised on the caller's thread without passing the hook again
        if let Ok(mut any) = LAST_PANIC_ANY_THREAD.lock() {
            *any = Some(format!("{msg} @ {loc}"));
        }
        if !QUIET.with(|q| *q.borrow()) {
            default(info);
        }
    }));
}

/// Runs closure catching panics; returns Err(message @ file:line).
pub fn catch<R>(f: impl FnOnce() -> R) -> Result<R, String> {
    let prev = QUIET.with(|q| q.replace(std::env::var("VERIF_LOUD").is_err()));
    LAST_PANIC.with(|p| *p.borrow_mut() = None);
    let result = catch_unwind(AssertUnwindSafe(f));
    QUIET.with(|q| *q.borrow_mut() = prev);
    result.map_err(|_| {
        LAST_PANIC
            .with(|p| p.borrow_mut().take())
            .or_else(|| LAST_PANIC_ANY_THREAD.lock().ok().and_then(|mut any| any.take()))
            .unwrap_or_else(|| "<unknown panic>".to_string())
    })
}

/// Extracts "file:line" of a captured panic string.
pub fn panic_site(msg: &str) -> String {
    let site = msg.rsplit(" @ ").next().unwrap_or("?");
    // make it stable regardless of where /repo lives
    // (also for a scratch worktree of the repository, e.g. /tmp/isorun/repo/...)
    match site.find("/repo/") {
        Some(i) => site[i + "/repo/".len()..].to_string(),
        None => site.to_string(),
    }
}

// ---------------------------------------------------------------------------------------------
// known findings

#[derive(Clone, Debug)]
pub struct KnownFinding {
    pub property: String,
    pub key: String,
    pub description: String,
}

pub fn load_known_findings() -> Vec<KnownFinding> {
    let path = Path::new(VERIF_ROOT).join("known_findings.json");
    let Ok(text) = std::fs::read_to_string(path) else { return vec![] };
    let Ok(value) = serde_json::from_str::<Value>(&text) else { return vec![] };
    value
        .get("known")
        .and_then(|k| k.as_array())
        .map(|items| {
            items
                .iter()
                .filter_map(|item| {
                    Some(KnownFinding {
                        property: item.get("property")?.as_str()?.to_string(),
                        key: item.get("key")?.as_str()?.to_string(),
                        description: item.get("description").and_then(|d| d.as_str()).unwrap_or("").to_string(),
                    })
                })
                .collect()
        })
        .unwrap_or_default()
}

// ---------------------------------------------------------------------------------------------
// finishing a run: evidence, violation artefacts, exit code

pub fn finish(ctx: &RunCtx, mut report: Report, started: Instant) -> i32 {
    let known = load_known_findings();
    let out_dir = out_root().join("out").join(&ctx.id);
    let _ = std::fs::remove_dir_all(&out_dir);

    // group violations by key
    let mut by_key: BTreeMap<String, Vec<Violation>> = BTreeMap::new();
    for v in report.violations.drain(..) {
        by_key.entry(v.key.clone()).or_default().push(v);
    }

    let mut exit = 0;
    let mut new_violations = 0usize;
    let mut known_hits = vec![];
    let mut file_idx = 0usize;
    for (key, items) in by_key.iter() {
        if let Some(kf) = known.iter().find(|k| k.property == ctx.id && &k.key == key) {
            out!("KNOWN-FINDING: property={} {} [{} occurrence(s); key={}]", ctx.id, kf.description, items.len(), key);
            known_hits.push(json!({"key": key, "occurrences": items.len()}));
            continue;
        }
        exit = 1;
        new_violations += items.len();
        let _ = std::fs::create_dir_all(&out_dir);
        for v in items.iter().take(3) {
            let path = out_dir.join(format!("{file_idx}.json"));
            file_idx += 1;
            let doc = json!({
                "property": ctx.id, "key": v.key, "what": v.what, "tier": ctx.tier.name(),
                "seed": ctx.seed, "scenario": v.scenario,
            });
            let _ = std::fs::write(&path, serde_json::to_string_pretty(&doc).unwrap());
            out!("VIOLATION property={} replay={}", ctx.id, path.display());
            out!("  key={} :: {}", v.key, truncate(&v.what, 600));
        }
        if items.len() > 3 {
            out!("  (+{} more occurrence(s) of key={})", items.len() - 3, key);
        }
        if std::env::var("VERIF_ALL").is_ok() {
            for v in items.iter() {
                out!("  OCCURRENCE key={} scenario={}", v.key, truncate(&v.scenario.to_string(), 300));
            }
        }
    }

    for e in &report.errors {
        eprintln!("MACHINERY-ERROR check={} {}", ctx.id, e);
    }
    if !report.errors.is_empty() && exit == 0 {
        exit = 2;
    }

    // vacuity guard
    if report.coverage.get("samples").and_then(|s| s.as_array()).is_none_or(|a| a.is_empty()) {
        report.sample(json!("no sample recorded"));
    }
    report.set("known_findings_hit", Value::Array(known_hits));
    report.set("violation_keys", json!(by_key.keys().cloned().collect::<Vec<_>>()));

    let evidence = json!({
        "property_id": ctx.id,
        "tier": ctx.tier.name(),
        "seed": ctx.seed,
        "level": report.level,
        "coverage": Value::Object(report.coverage.clone()),
        "assumptions": report.assumptions,
        "wall_s": started.elapsed().as_secs_f64(),
        "violations": new_violations,
    });
    let ev_dir = out_root().join("evidence");
    let _ = std::fs::create_dir_all(&ev_dir);
    let ev_path = ev_dir.join(format!("{}.json", ctx.id));
    if exit != 2 {
        std::fs::write(&ev_path, serde_json::to_string_pretty(&evidence).unwrap()).expect("cannot write evidence");
    }

    out!(
        "check={} tier={} exit={} wall_s={:.1} {}",
        ctx.id,
        ctx.tier.name(),
        exit,
        started.elapsed().as_secs_f64(),
        summary_line(&report.coverage)
    );
    exit
}

fn summary_line(cov: &Map<String, Value>) -> String {
    cov.iter()
        .filter(|(_, v)| v.is_number() || v.is_boolean())
        .map(|(k, v)| format!("{k}={v}"))
        .collect::<Vec<_>>()
        .join(" ")
}

pub fn truncate(s: &str, n: usize) -> String {
    if s.len() <= n { s.to_string() } else { format!("{}…", &s[..s.char_indices().take_while(|(i, _)| *i < n).last().map_or(0, |(i, _)| i)]) }
}

// ---------------------------------------------------------------------------------------------
// small helpers

/// Runs `f(i)` for i in 0..n on `threads` OS threads (pure checks only), returns results in index order.
pub fn par_map<R: Send>(threads: usize, n: usize, f: impl Fn(usize) -> R + Sync) -> Vec<R> {
    use std::sync::Mutex;
    use std::sync::atomic::{AtomicUsize, Ordering};
    let next = AtomicUsize::new(0);
    let results: Mutex<Vec<(usize, R)>> = Mutex::new(Vec::with_capacity(n));
    std::thread::scope(|s| {
        for _ in 0..threads.max(1).min(n.max(1)) {
            s.spawn(|| {
                loop {
                    let i = next.fetch_add(1, Ordering::Relaxed);
                    if i >= n {
                        break;
                    }
                    let r = f(i);
                    results.lock().unwrap().push((i, r));
                }
            });
        }
    });
    let mut results = results.into_inner().unwrap();
    results.sort_by_key(|(i, _)| *i);
    results.into_iter().map(|(_, r)| r).collect()
}

/// A tiny FNV-1a 64-bit hasher for canonical state digests (deterministic across processes).
pub fn fnv64(bytes: &[u8]) -> u64 {
    let mut h: u64 = 0xcbf29ce484222325;
    for b in bytes {
        h ^= *b as u64;
        h = h.wrapping_mul(0x100000001b3);
    }
    h
}

/// Enumerates the cartesian product of index ranges: calls `f` with every index vector.
pub fn product(dims: &[usize], mut f: impl FnMut(&[usize])) {
    if dims.iter().any(|d| *d == 0) {
        return;
    }
    let mut idx = vec![0usize; dims.len()];
    loop {
        f(&idx);
        let mut k = dims.len();
        loop {
            if k == 0 {
                return;
            }
            k -= 1;
            idx[k] += 1;
            if idx[k] < dims[k] {
                break;
            }
            idx[k] = 0;
        }
    }
}

/// Decodes a flat index into a mixed-radix index vector.
pub fn decode(mut flat: usize, dims: &[usize]) -> Vec<usize> {
    let mut idx = vec![0; dims.len()];
    for k in (0..dims.len()).rev() {
        idx[k] = flat % dims[k];
        flat /= dims[k];
    }
    idx
}

// ---------------------------------------------------------------------------------------------
// sharded workers: deterministic subprocesses (getrandom shim + ASLR off + single rayon thread)

pub struct ShardOutput {
    pub shard: usize,
    pub lines: Vec<Value>,
    pub ok: bool,
    pub stderr_tail: String,
}

/// Spawns `vcheck worker <id> --tier t --shard i --of n [extra]` for every shard, at most `ctx.threads`
/// at a time; every stdout line of a worker must be one JSON value.
pub fn run_shards(ctx: &RunCtx, n_shards: usize, extra: &[String], hash_seed: u64) -> Vec<ShardOutput> {
    let exe = std::env::current_exe().expect("no current exe");
    par_map(ctx.threads, n_shards, |shard| {
        let mut args: Vec<String> = vec![
            "worker".into(),
            ctx.id.clone(),
            "--tier".into(),
            ctx.tier.name().into(),
            "--shard".into(),
            shard.to_string(),
            "--of".into(),
            n_shards.to_string(),
            "--seed".into(),
            ctx.seed.to_string(),
        ];
        args.extend(extra.iter().cloned());
        run_worker(&exe, &args, hash_seed, shard)
    })
}

pub fn run_worker(exe: &Path, args: &[String], hash_seed: u64, shard: usize) -> ShardOutput {
    let shim = PathBuf::from(VERIF_ROOT).join("target").join("libverifshim.so");
    let mut cmd = if Path::new("/usr/bin/setarch").exists() {
        let mut c = std::process::Command::new("/usr/bin/setarch");
        c.arg(std::env::consts::ARCH).arg("-R").arg(exe);
        c
    } else {
        std::process::Command::new(exe)
    };
    cmd.args(args);
    cmd.env("RAYON_NUM_THREADS", "1");
    cmd.env("VERIF_HASH_SEED", hash_seed.to_string());
    if shim.exists() {
        cmd.env("LD_PRELOAD", &shim);
    }
    match cmd.output() {
        Ok(out) => {
            let stdout = String::from_utf8_lossy(&out.stdout);
            let mut lines = vec![];
            let mut ok = out.status.success();
            for line in stdout.lines().filter(|l| !l.trim().is_empty()) {
                match serde_json::from_str::<Value>(line) {
                    Ok(v) => lines.push(v),
                    Err(_) => {
                        ok = false;
                    }
                }
            }
            let stderr = String::from_utf8_lossy(&out.stderr);
            let tail: String = stderr.lines().rev().take(12).collect::<Vec<_>>().into_iter().rev().collect::<Vec<_>>().join("\n");
            ShardOutput { shard, lines, ok, stderr_tail: tail }
        }
        Err(e) => ShardOutput { shard, lines: vec![], ok: false, stderr_tail: format!("spawn failed: {e}") },
    }
}

impl Report {
    pub fn to_value(&self) -> Value {
        json!({
            "level": self.level,
            "coverage": Value::Object(self.coverage.clone()),
            "assumptions": self.assumptions,
            "violations": self.violations.iter().map(|v| json!({"key": v.key, "what": v.what, "scenario": v.scenario})).collect::<Vec<_>>(),
            "errors": self.errors,
        })
    }

    pub fn from_value(v: &Value) -> Option<Report> {
        Some(Report {
            level: v.get("level")?.as_str()?.to_string(),
            coverage: v.get("coverage")?.as_object()?.clone(),
            assumptions: v.get("assumptions")?.as_array()?.iter().filter_map(|a| a.as_str().map(|s| s.to_string())).collect(),
            violations: v
                .get("violations")?
                .as_array()?
                .iter()
                .filter_map(|x| Some(Violation::new(x.get("key")?.as_str()?, x.get("what")?.as_str()?, x.get("scenario")?.clone())))
                .collect(),
            errors: v.get("errors")?.as_array()?.iter().filter_map(|a| a.as_str().map(|s| s.to_string())).collect(),
        })
    }
}

/// Hash seed used for the deterministic workers of this run.
pub fn hash_seed(ctx: &RunCtx) -> u64 {
    std::env::var("VERIF_HASH_SEED").ok().and_then(|s| s.parse().ok()).unwrap_or(ctx.seed)
}

/// Runs all shards in deterministic worker processes; every worker prints exactly one line: its `Report` as JSON.
/// Violations get shard coordinates attached so that they can be replayed.
pub fn run_sharded_report(ctx: &RunCtx, level: &str, n_shards: usize, extra: &[String]) -> Report {
    let hs = hash_seed(ctx);
    let outputs = run_shards(ctx, n_shards, extra, hs);
    let mut report = Report::new(level);
    for out in outputs {
        let parsed = out.lines.last().and_then(Report::from_value);
        match parsed {
            Some(mut r) if out.ok => {
                for v in r.violations.iter_mut() {
                    if let Some(obj) = v.scenario.as_object_mut() {
                        obj.insert("_shard".into(), json!({"shard": out.shard, "of": n_shards, "hash_seed": hs, "extra": extra}));
                    }
                }
                report.merge(r);
            }
            _ => report.error(format!("worker shard {}/{} failed: {}", out.shard, n_shards, out.stderr_tail)),
        }
    }
    report.add_count("worker_shards", n_shards as u64);
    report
}

/// Worker side: emits one JSON line.
pub fn emit(value: &Value) {
    out!("{}", serde_json::to_string(value).unwrap());
}
