// core-level tour simulator (DESIGN 4.3)
