//! Seams for nondeterminism (DESIGN section 2): scripted `Random` (N1), reseed of raw RNG (N2),
//! split plans (N3), virtual clock (N4), counting quota (N5).

use rand::prelude::*;
use rosomaxa::prelude::*;
use rosomaxa::utils::Parallelism;
use rosomaxa::utils::verif_plan::{Plan, PlanProvider, Tree};
use std::sync::atomic::{AtomicU64, Ordering};
use std::sync::{Arc, Mutex};

// ---------------------------------------------------------------------------------------------
// N1: scripted random

#[derive(Clone, Copy, Debug, PartialEq, Eq)]
pub enum Kind {
    Int = 0,
    Real = 1,
    Coin = 2,
    Hit = 3,
    Weighted = 4,
}

/// One answered choice point: (kind, menu size, chosen menu index).
pub type Choice = (u8, u16, u16);

#[derive(Clone, Debug)]
pub enum Fallback {
    /// Menu entry 0 at every choice point after the prefix.
    Default,
    /// Pseudo-random answers (full value ranges, not only the menu) from a private seeded stream.
    Stream(u64),
}

struct ScriptState {
    fallback: Fallback,
    prefix: Vec<u16>,
    trace: Vec<Choice>,
    rng: SmallRng,
    mismatch: Option<String>,
    expected: Option<Vec<Choice>>,
}

/// `Random` implementation whose every answer is a recorded choice point.
pub struct ScriptedRandom {
    state: Mutex<ScriptState>,
    trace_cap: usize,
}

impl ScriptedRandom {
    pub fn new(prefix: Vec<u16>, fallback: Fallback) -> Self {
        let seed = match fallback {
            Fallback::Stream(s) => s,
            Fallback::Default => 0,
        };
        Self {
            state: Mutex::new(ScriptState {
                fallback,
                prefix,
                trace: vec![],
                rng: SmallRng::seed_from_u64(seed),
                mismatch: None,
                expected: None,
            }),
            trace_cap: 100_000,
        }
    }

    /// Starts a new execution on the same object (contexts keep an `Arc` of their random source).
    pub fn reset(&self, prefix: Vec<u16>, fallback: Fallback) {
        let seed = match fallback {
            Fallback::Stream(s) => s,
            Fallback::Default => 0,
        };
        let mut st = self.state.lock().unwrap();
        *st = ScriptState { fallback, prefix, trace: vec![], rng: SmallRng::seed_from_u64(seed), mismatch: None, expected: None };
    }

    /// When replaying a recorded prefix, kinds and menu sizes must match the recording.
    pub fn expect(self, expected: Vec<Choice>) -> Self {
        self.state.lock().unwrap().expected = Some(expected);
        self
    }

    pub fn trace(&self) -> Vec<Choice> {
        self.state.lock().unwrap().trace.clone()
    }

    pub fn mismatch(&self) -> Option<String> {
        self.state.lock().unwrap().mismatch.clone()
    }

    /// Answers a choice point: returns Some(menu index) when forced by prefix/default, None when the
    /// stream fallback should produce a free value.
    fn choose(&self, kind: Kind, menu: usize) -> (Option<usize>, std::sync::MutexGuard<'_, ScriptState>) {
        let mut st = self.state.lock().unwrap();
        let pos = st.trace.len();
        let menu = menu.max(1);
        if let Some(expected) = st.expected.as_ref() {
            if let Some((k, m, _)) = expected.get(pos) {
                if *k != kind as u8 || *m as usize != menu {
                    let msg = format!("choice {pos}: recorded kind={k} menu={m}, now kind={} menu={menu}", kind as u8);
                    st.mismatch.get_or_insert(msg);
                }
            }
        }
        let forced = if pos < st.prefix.len() {
            let c = st.prefix[pos] as usize;
            if c >= menu {
                let msg = format!("choice {pos}: prefix answer {c} out of menu {menu}");
                st.mismatch.get_or_insert(msg);
                Some(0)
            } else {
                Some(c)
            }
        } else {
            match st.fallback {
                Fallback::Default => Some(0),
                Fallback::Stream(_) => None,
            }
        };
        (forced, st)
    }

    fn record(&self, st: &mut ScriptState, kind: Kind, menu: usize, chosen: usize) {
        if st.trace.len() < self.trace_cap {
            st.trace.push((kind as u8, menu.max(1) as u16, chosen as u16));
        }
    }
}

/// Menu of integer answers for [min, max].
pub fn int_menu(min: i32, max: i32) -> Vec<i32> {
    if max <= min {
        return vec![min];
    }
    if (max as i64 - min as i64) < 6 {
        return (min..=max).collect();
    }
    let mid = (min as i64 + (max as i64 - min as i64) / 2) as i32;
    let mut menu = vec![min, min + 1, mid, max - 1, max];
    menu.dedup();
    menu
}

/// Menu of real answers for [min, max).
pub fn real_menu(min: Float, max: Float) -> Vec<Float> {
    if (min - max).abs() < Float::EPSILON || !(min < max) {
        return vec![min];
    }
    let mid = min + (max - min) / 2.;
    let hi = max - (max - min) / 1024.;
    vec![mid, min, hi]
}

/// Menu for weighted: indices with positive weight by descending weight (stable).
pub fn weighted_menu(weights: &[usize]) -> Vec<usize> {
    let mut idx: Vec<usize> = (0..weights.len()).filter(|i| weights[*i] > 0).collect();
    idx.sort_by(|a, b| weights[*b].cmp(&weights[*a]).then(a.cmp(b)));
    if idx.is_empty() {
        idx.push(0);
    }
    idx
}

impl Random for ScriptedRandom {
    fn uniform_int(&self, min: i32, max: i32) -> i32 {
        if min == max {
            return min;
        }
        assert!(min < max);
        let menu = int_menu(min, max);
        let (forced, mut st) = self.choose(Kind::Int, menu.len());
        match forced {
            Some(i) => {
                self.record(&mut st, Kind::Int, menu.len(), i);
                menu[i]
            }
            None => {
                let v = st.rng.gen_range(min..=max);
                self.record(&mut st, Kind::Int, menu.len(), u16::MAX as usize);
                v
            }
        }
    }

    fn uniform_real(&self, min: Float, max: Float) -> Float {
        if (min - max).abs() < Float::EPSILON {
            return min;
        }
        assert!(min < max);
        let menu = real_menu(min, max);
        let (forced, mut st) = self.choose(Kind::Real, menu.len());
        match forced {
            Some(i) => {
                self.record(&mut st, Kind::Real, menu.len(), i);
                menu[i]
            }
            None => {
                let v = st.rng.gen_range(min..max);
                self.record(&mut st, Kind::Real, menu.len(), u16::MAX as usize);
                v
            }
        }
    }

    fn is_head_not_tails(&self) -> bool {
        let (forced, mut st) = self.choose(Kind::Coin, 2);
        match forced {
            Some(i) => {
                self.record(&mut st, Kind::Coin, 2, i);
                i == 0
            }
            None => {
                let v = st.rng.gen_bool(0.5);
                self.record(&mut st, Kind::Coin, 2, u16::MAX as usize);
                v
            }
        }
    }

    fn is_hit(&self, probability: Float) -> bool {
        if !(probability > 0.) {
            return false;
        }
        if probability >= 1. {
            return true;
        }
        let (forced, mut st) = self.choose(Kind::Hit, 2);
        match forced {
            Some(i) => {
                self.record(&mut st, Kind::Hit, 2, i);
                i == 1
            }
            None => {
                let v = st.rng.gen_bool(probability as f64);
                self.record(&mut st, Kind::Hit, 2, u16::MAX as usize);
                v
            }
        }
    }

    fn weighted(&self, weights: &[usize]) -> usize {
        let menu = weighted_menu(weights);
        if menu.len() == 1 {
            return menu[0];
        }
        let (forced, mut st) = self.choose(Kind::Weighted, menu.len());
        match forced {
            Some(i) => {
                self.record(&mut st, Kind::Weighted, menu.len(), i);
                menu[i]
            }
            None => {
                let total: usize = menu.iter().map(|i| weights[*i]).sum();
                let mut x = st.rng.gen_range(0..total);
                let mut pick = menu[0];
                for i in &menu {
                    if x < weights[*i] {
                        pick = *i;
                        break;
                    }
                    x -= weights[*i];
                }
                self.record(&mut st, Kind::Weighted, menu.len(), u16::MAX as usize);
                pick
            }
        }
    }

    fn get_rng(&self) -> RandomGen {
        RandomGen::new_repeatable()
    }
}

/// Deviation-bounded enumeration over the choice points of `run` (DESIGN 3.1).
/// `run(prefix)` must execute the scenario under `ScriptedRandom::new(prefix, Fallback::Default)` and return
/// the trace; it is called for the default execution and for every execution with up to `bound`
/// non-default answers. `max_points` caps the number of choice points per execution that are branched on;
/// returns (executions, capped).
pub fn explore_deviations(bound: usize, max_points: usize, max_execs: usize, run: &mut dyn FnMut(&[u16]) -> Vec<Choice>) -> (usize, bool) {
    let mut execs = 0usize;
    let mut capped = false;
    fn rec(
        prefix: &[u16],
        deviations: usize,
        bound: usize,
        max_points: usize,
        max_execs: usize,
        execs: &mut usize,
        capped: &mut bool,
        run: &mut dyn FnMut(&[u16]) -> Vec<Choice>,
    ) {
        if *execs >= max_execs {
            *capped = true;
            return;
        }
        let trace = run(prefix);
        *execs += 1;
        if deviations >= bound {
            return;
        }
        let upto = trace.len().min(max_points);
        if trace.len() > max_points {
            *capped = true;
        }
        for i in prefix.len()..upto {
            let (_, menu, chosen) = trace[i];
            for alt in 0..menu {
                if alt == chosen {
                    continue;
                }
                let mut next: Vec<u16> = trace[..i].iter().map(|c| c.2).collect();
                next.push(alt);
                rec(&next, deviations + 1, bound, max_points, max_execs, execs, capped, run);
            }
        }
    }
    rec(&[], 0, bound, max_points, max_execs, &mut execs, &mut capped, run);
    (execs, capped)
}

// ---------------------------------------------------------------------------------------------
// N5: counting quota

/// Quota which turns true at its k-th poll (0-based) and stays true. `fire_at = u64::MAX` never fires.
pub struct CountingQuota {
    polls: AtomicU64,
    fire_at: u64,
}

impl CountingQuota {
    pub fn new(fire_at: u64) -> Self {
        Self { polls: AtomicU64::new(0), fire_at }
    }
    pub fn polls(&self) -> u64 {
        self.polls.load(Ordering::SeqCst)
    }
}

impl Quota for CountingQuota {
    fn is_reached(&self) -> bool {
        let k = self.polls.fetch_add(1, Ordering::SeqCst);
        k >= self.fire_at
    }
}

// ---------------------------------------------------------------------------------------------
// N3: split plans

/// All compositions of n into ordered positive parts.
pub fn compositions(n: usize) -> Vec<Vec<usize>> {
    if n == 0 {
        return vec![vec![]];
    }
    let mut out = vec![];
    for mask in 0..(1usize << (n - 1)) {
        let mut parts = vec![];
        let mut cur = 1;
        for bit in 0..n - 1 {
            if mask >> bit & 1 == 1 {
                parts.push(cur);
                cur = 1;
            } else {
                cur += 1;
            }
        }
        parts.push(cur);
        out.push(parts);
    }
    out
}

/// All order-preserving binary trees over leaves lo..hi (exclusive).
pub fn trees(lo: usize, hi: usize) -> Vec<Tree> {
    if hi - lo == 1 {
        return vec![Tree::Leaf(lo)];
    }
    let mut out = vec![];
    for mid in lo + 1..hi {
        for l in trees(lo, mid) {
            for r in trees(mid, hi) {
                out.push(Tree::Node(Box::new(l.clone()), Box::new(r)));
            }
        }
    }
    out
}

/// Enumerates every plan (composition x tree x identity injection at the ends) for n items.
pub fn all_plans(n: usize, with_identity: bool) -> Vec<Plan> {
    if n == 0 {
        return vec![Plan { segments: vec![], tree: Tree::Identity, reverse_maps: false }];
    }
    let mut out = vec![];
    for comp in compositions(n) {
        for tree in trees(0, comp.len()) {
            out.push(Plan { segments: comp.clone(), tree: tree.clone(), reverse_maps: false });
            if with_identity {
                let l = Tree::Node(Box::new(Tree::Identity), Box::new(tree.clone()));
                let r = Tree::Node(Box::new(tree.clone()), Box::new(Tree::Identity));
                let lr = Tree::Node(Box::new(Tree::Identity), Box::new(r.clone()));
                out.push(Plan { segments: comp.clone(), tree: l, reverse_maps: false });
                out.push(Plan { segments: comp.clone(), tree: r, reverse_maps: false });
                out.push(Plan { segments: comp.clone(), tree: lr, reverse_maps: false });
            }
        }
    }
    out
}

#[derive(Clone, Copy, Debug, PartialEq, Eq)]
pub enum PlanPolicy {
    Sequential,
    /// sequential folds, maps evaluated in reverse index order
    Reverse,
    /// every item its own segment, left-deep tree
    SingletonsLeft,
    /// every item its own segment, right-deep tree
    SingletonsRight,
    /// two halves
    Halves,
}

impl PlanPolicy {
    pub fn all() -> [PlanPolicy; 5] {
        [PlanPolicy::Sequential, PlanPolicy::Reverse, PlanPolicy::SingletonsLeft, PlanPolicy::SingletonsRight, PlanPolicy::Halves]
    }
    pub fn name(&self) -> &'static str {
        match self {
            PlanPolicy::Sequential => "sequential",
            PlanPolicy::Reverse => "reverse-maps",
            PlanPolicy::SingletonsLeft => "singletons-left",
            PlanPolicy::SingletonsRight => "singletons-right",
            PlanPolicy::Halves => "halves",
        }
    }
    pub fn plan(&self, n: usize) -> Plan {
        match self {
            _ if n == 0 => Plan { segments: vec![], tree: Tree::Identity, reverse_maps: false },
            PlanPolicy::Sequential => Plan::sequential(n),
            PlanPolicy::Reverse => Plan { reverse_maps: true, ..Plan::sequential(n) },
            PlanPolicy::SingletonsLeft => {
                let mut tree = Tree::Leaf(0);
                for i in 1..n {
                    tree = Tree::Node(Box::new(tree), Box::new(Tree::Leaf(i)));
                }
                Plan { segments: vec![1; n], tree, reverse_maps: false }
            }
            PlanPolicy::SingletonsRight => {
                let mut tree = Tree::Leaf(n - 1);
                for i in (0..n - 1).rev() {
                    tree = Tree::Node(Box::new(Tree::Leaf(i)), Box::new(tree));
                }
                Plan { segments: vec![1; n], tree, reverse_maps: false }
            }
            PlanPolicy::Halves => {
                if n < 2 {
                    Plan::sequential(n)
                } else {
                    let h = n / 2;
                    Plan {
                        segments: vec![h, n - h],
                        tree: Tree::Node(Box::new(Tree::Leaf(0)), Box::new(Tree::Leaf(1))),
                        reverse_maps: false,
                    }
                }
            }
        }
    }
}

pub struct PolicyProvider(pub PlanPolicy);

impl PlanProvider for PolicyProvider {
    fn plan(&mut self, _kind: &'static str, n: usize) -> Plan {
        self.0.plan(n)
    }
}

/// Applies a fixed plan to the first fold_reduce call with matching item count, sequential elsewhere.
pub struct FixedPlanProvider {
    pub plan: Plan,
    pub used: Arc<AtomicU64>,
}

impl PlanProvider for FixedPlanProvider {
    fn plan(&mut self, kind: &'static str, n: usize) -> Plan {
        if kind == "fold_reduce" && n == self.plan.segments.iter().sum::<usize>() {
            self.used.fetch_add(1, Ordering::SeqCst);
            self.plan.clone()
        } else {
            Plan::sequential(n)
        }
    }
}

pub fn install_policy(policy: PlanPolicy) {
    rosomaxa::utils::verif_plan::install(Box::new(PolicyProvider(policy)));
}

pub fn uninstall_plan() {
    let _ = rosomaxa::utils::verif_plan::uninstall();
}

// ---------------------------------------------------------------------------------------------
// deterministic environment

pub fn silent_logger() -> InfoLogger {
    Arc::new(|_| {})
}

/// Resets per-execution sources: RNG stream (N2).
pub fn reseed(seed: u64) {
    rosomaxa::utils::verif_reseed(seed);
    // the pragmatic reader creates non-repeatable random sources (e.g. for sampling job permutations): pin them too
    rosomaxa::utils::verif_reseed_randomized(seed ^ 0x5eed);
}

/// An environment with controlled random, optional quota, fixed cpu count, no logging.
pub fn environment(random: Arc<dyn Random>, quota: Option<Arc<dyn Quota>>, cpus: usize) -> Arc<Environment> {
    Arc::new(Environment::new(random, quota, Parallelism::new_with_cpus(cpus), silent_logger(), false))
}

/// Environment using the library's own repeatable random (stream selected by `reseed`).
pub fn repeatable_environment(quota: Option<Arc<dyn Quota>>, cpus: usize) -> Arc<Environment> {
    environment(Arc::new(DefaultRandom::new_repeatable()), quota, cpus)
}
