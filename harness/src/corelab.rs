//! Core-level laboratory shared by C06 / C20: a fixed small world (4 locations, task templates, vehicles), tours built
//! by direct tour edits on the real types, and `Sim` — an independent step-by-step tour simulator (DESIGN 4.3).

use crate::env::*;
use rosomaxa::prelude::*;
use rosomaxa::utils::Parallelism;
use std::sync::Arc;
use vrp_core::construction::heuristics::*;
use vrp_core::models::common::*;
use vrp_core::models::problem::*;
use vrp_core::models::solution::{Activity, Place as ActPlace};
use vrp_core::models::{Feature, GoalContext, GoalContextBuilder, Problem, ProblemBuilder};
use vrp_core::prelude::{CapacityFeatureBuilder, MinimizeUnassignedBuilder, TransportFeatureBuilder};

pub const LOCS: usize = 4;

/// Travel duration: integral, asymmetric, triangle-respecting, every entry distinct from the distance entry.
pub fn dur(i: usize, j: usize) -> f64 {
    if i == j { 0. } else { 5. * (i as f64 - j as f64).abs() + if j > i { 1. } else { 0. } }
}
pub fn dist(i: usize, j: usize) -> f64 {
    if i == j { 0. } else { 7. * (i as f64 - j as f64).abs() + if j > i { 2. } else { 0. } }
}

#[derive(Clone, Copy, Debug, PartialEq)]
pub enum DemandKind {
    None,
    /// static delivery: on board from the start
    Delivery(i32),
    /// static pickup: stays on board till the end
    Pickup(i32),
    DynPickup(i32),
    DynDelivery(i32),
    /// one single job with a static pickup AND a static delivery (an exchange): (pickup, delivery)
    Exchange(i32, i32),
}

#[derive(Clone, Debug)]
pub struct PlaceT {
    pub loc: usize,
    pub service: f64,
    pub windows: Vec<(f64, f64)>,
}

/// A task = one `Single`.
#[derive(Clone, Debug)]
pub struct TaskT {
    pub id: &'static str,
    pub demand: DemandKind,
    pub places: Vec<PlaceT>,
    /// index of the job this task belongs to
    pub job: usize,
    pub value: f64,
}

pub const MAXT: f64 = f64::MAX;

fn place(loc: usize, service: f64, windows: &[(f64, f64)]) -> PlaceT {
    PlaceT { loc, service, windows: windows.to_vec() }
}

/// Task templates. Jobs: 0..=9, 12, 14..=20 singles, job 10 = multi (mp, md), job 11 = multi (np, nd), job 13 = multi (qp1, qp2, qd).
pub fn tasks() -> Vec<TaskT> {
    use DemandKind::*;
    let t = |id, demand, places: Vec<PlaceT>, job, value| TaskT { id, demand, places, job, value };
    vec![
        t("d1", Delivery(1), vec![place(1, 0., &[(0., MAXT)])], 0, 0.),
        t("d2", Delivery(1), vec![place(2, 5., &[(0., 10.)])], 1, 3.),
        t("p1", Pickup(1), vec![place(1, 0., &[(10., 10.)])], 2, 0.),
        t("p2", Pickup(1), vec![place(3, 5., &[(20., 30.)])], 3, 5.),
        t("s1", None, vec![place(2, 0., &[(0., 5.), (25., 40.)])], 4, 0.),
        t("s2", None, vec![place(3, 5., &[(0., MAXT)])], 5, 2.),
        t("d3", Delivery(2), vec![place(3, 0., &[(0., MAXT)])], 6, 0.),
        t("p3", Pickup(2), vec![place(2, 0., &[(10., 16.)])], 7, 0.),
        t("t1", None, vec![place(1, 0., &[(0., 5.)]), place(3, 0., &[(20., 30.)])], 8, 1.),
        t("d4", Delivery(1), vec![place(2, 5., &[(5., 15.)])], 9, 0.),
        t("mp", DynPickup(1), vec![place(1, 0., &[(0., MAXT)])], 10, 4.),
        t("md", DynDelivery(1), vec![place(3, 0., &[(0., MAXT)])], 10, 4.),
        t("np", DynPickup(1), vec![place(2, 0., &[(0., 12.)])], 11, 0.),
        t("nd", DynDelivery(1), vec![place(1, 5., &[(20., 30.)])], 11, 0.),
        // first window lies completely behind the end of every closed shift, the second one is usable
        t("s3", None, vec![place(1, 0., &[(2000., 3000.), (0., 50.)])], 12, 0.),
        // a job with three tasks: two pickups with long service push the delivery towards its deadline
        t("qp1", DynPickup(1), vec![place(1, 20., &[(0., MAXT)])], 13, 0.),
        t("qp2", DynPickup(1), vec![place(2, 20., &[(0., MAXT)])], 13, 0.),
        t("qd", DynDelivery(2), vec![place(3, 0., &[(0., 60.)])], 13, 0.),
        // windows which touch the shift in one instant: at the depot with window end == shift start, and a zero-duration task
        // at the end depot whose window starts when the tight shift ends
        t("b0", None, vec![place(0, 0., &[(0., 0.)])], 14, 0.),
        t("b36", None, vec![place(0, 0., &[(36., 50.)])], 15, 0.),
        // two alternative places: the first one lies completely behind the end of every closed shift, the second is usable
        t("t2", None, vec![place(1, 0., &[(2000., 3000.)]), place(2, 0., &[(0., 50.)])], 16, 0.),
        // exchanges: one single job which hands over and takes back (static pickup and static delivery in one demand); the
        // second takes back more than it hands over
        t("x1", Exchange(1, 1), vec![place(1, 0., &[(0., MAXT)])], 17, 0.),
        t("x2", Exchange(2, 1), vec![place(2, 0., &[(0., MAXT)])], 18, 0.),
        // windows around TD_AT (the moment from which legs take twice as long in the time-dependent lab): a job which is left
        // just after it although it is reached long before, and a tight window right behind it
        t("w38", None, vec![place(1, 3., &[(38., 45.)])], 19, 0.),
        t("w45", None, vec![place(2, 0., &[(45., 50.)])], 20, 0.),
    ]
}

#[derive(Clone, Debug)]
pub struct VehicleT {
    pub id: &'static str,
    pub closed: bool,
    pub end_loc: usize,
    pub start_earliest: f64,
    pub start_latest: f64,
    pub end_latest: f64,
    pub capacity: i32,
    pub fixed: f64,
    pub per_distance: f64,
    pub per_time: f64,
    /// duration scale of the vehicle's routing profile
    pub scale: f64,
    /// the lab's routing data is time dependent (see `travel`)
    pub timedep: bool,
}

/// From this moment on every leg takes twice as long (time-dependent labs): three matrices with the timestamps 0, TD_AT - 1
/// (both the plain durations) and TD_AT (doubled); every time of the lab is integral, so a query never falls between two
/// timestamps and the provider's interpolation is not involved.
pub const TD_AT: f64 = 40.;

/// Travel time of a leg which starts at `t`.
pub fn travel(vehicle: &VehicleT, i: usize, j: usize, t: f64) -> f64 {
    let factor = if vehicle.timedep && t >= TD_AT { 2. } else { 1. };
    dur(i, j) * factor * vehicle.scale
}

pub fn vehicles() -> Vec<VehicleT> {
    let v = |id, closed, start_latest, end_latest, capacity| VehicleT {
        id,
        closed,
        end_loc: 0,
        start_earliest: 0.,
        start_latest,
        end_latest,
        capacity,
        fixed: 10.,
        per_distance: 1.,
        per_time: 2.,
        scale: 1.,
        timedep: false,
    };
    vec![
        v("v_closed", true, 0., 1000., 2),
        v("v_tight", true, 0., 36., 2),
        // vehicles differ in their costs: a quote made with another vehicle's costs shows
        VehicleT { fixed: 15., per_distance: 2., per_time: 1., ..v("v_open", false, 0., MAXT, 2) },
        v("v_open1", false, 0., MAXT, 1),
        VehicleT { fixed: 25., per_distance: 3., ..v("v_closed1", true, 0., 1000., 1) },
        v("v_shift", true, 20., 60., 2),
        // ends somewhere else than it starts
        VehicleT { end_loc: 3, per_time: 3., ..v("v_other_end", true, 0., 1000., 2) },
        // a routing profile which doubles every travel time
        VehicleT { scale: 2., ..v("v_scaled", true, 0., 1000., 2) },
    ]
}

pub struct Lab {
    pub problem: Arc<Problem>,
    pub environment: Arc<Environment>,
    pub tasks: Vec<TaskT>,
    pub vehicles: Vec<VehicleT>,
    /// core singles per task
    pub singles: Vec<Arc<Single>>,
    /// core jobs per job index
    pub jobs: Vec<Job>,
    pub transport: Arc<dyn TransportCost>,
}

#[derive(Clone, Copy, Debug, PartialEq)]
pub enum GoalKind {
    /// min-unassigned, min-cost
    Cost,
    /// min-unassigned, min-tours, min-distance
    Distance,
    /// single layer goals for C20
    OnlyUnassigned,
    /// min-unassigned with a job estimator which weighs jobs by their value (as the pragmatic reader does for breaks)
    OnlyWeightedUnassigned,
    OnlyTours,
    OnlyDistance,
    OnlyValue,
    OnlyCost,
    /// ONE layer which sums additive objectives (FeatureCombinator): tours + distance
    SumToursDistance,
    /// unassigned + tours + distance in one layer
    SumUnassignedToursDistance,
}

pub fn build_goal(kind: GoalKind, transport: Arc<dyn TransportCost>) -> GoalContext {
    use vrp_core::construction::features::*;
    let activity: Arc<dyn ActivityCost> = Arc::new(SimpleActivityCost::default());
    let unassigned = MinimizeUnassignedBuilder::new("min-unassigned").build().unwrap();
    let capacity = CapacityFeatureBuilder::<SingleDimLoad>::new("capacity").build().unwrap();
    let tours = create_minimize_tours_feature("min-tours").unwrap();
    let tb = |name: &str| TransportFeatureBuilder::new(name).set_transport_cost(transport.clone()).set_activity_cost(activity.clone()).set_time_constrained(true);
    let value = || {
        create_maximize_total_job_value_feature(
            "max-value",
            JobReadValueFn::Left(Arc::new(|job: &Job| job.dimens().get_value::<ValueKey, f64>().copied().unwrap_or(0.))),
            Arc::new(|job: Job, _| job),
            vrp_core::models::ViolationCode(99),
        )
        .unwrap()
    };
    let features: Vec<Feature> = match kind {
        GoalKind::Cost => vec![unassigned, tb("min-cost").build_minimize_cost().unwrap(), capacity],
        GoalKind::Distance => vec![unassigned, tours, tb("min-distance").build_minimize_distance().unwrap(), capacity],
        // single-layer goals: the transport feature is always present as a constraint (its objective comes first or is
        // the only one); for the others the schedule keeper supplies the constraint without an objective
        GoalKind::OnlyUnassigned => vec![unassigned, tb("schedule").build_schedule_updater().unwrap(), capacity],
        GoalKind::OnlyWeightedUnassigned => vec![
            MinimizeUnassignedBuilder::new("min-unassigned")
                .set_job_estimator(|_, job: &Job| 1. + job.dimens().get_value::<ValueKey, f64>().copied().unwrap_or(0.))
                .build()
                .unwrap(),
            tb("schedule").build_schedule_updater().unwrap(),
            capacity,
        ],
        GoalKind::OnlyTours => vec![tours, tb("schedule").build_schedule_updater().unwrap(), capacity],
        GoalKind::OnlyDistance => vec![tb("min-distance").build_minimize_distance().unwrap(), capacity],
        GoalKind::OnlyValue => vec![value(), tb("schedule").build_schedule_updater().unwrap(), capacity],
        GoalKind::OnlyCost => vec![tb("min-cost").build_minimize_cost().unwrap(), capacity],
        GoalKind::SumToursDistance => vec![
            vrp_core::construction::enablers::FeatureCombinator::default()
                .use_name("tours-and-distance")
                .add_features(&[tours, tb("min-distance").build_minimize_distance().unwrap()])
                .combine()
                .unwrap(),
            capacity,
        ],
        GoalKind::SumUnassignedToursDistance => vec![
            vrp_core::construction::enablers::FeatureCombinator::default()
                .use_name("unassigned-tours-distance")
                .add_features(&[unassigned, tours, tb("min-distance").build_minimize_distance().unwrap()])
                .combine()
                .unwrap(),
            capacity,
        ],
    };
    GoalContextBuilder::with_features(&features).unwrap().build().unwrap()
}

pub struct ValueKey;

/// The task templates plus `n` filler services (no demand, no window, no service time) spread over the locations 1..3:
/// material for tours long enough for the evaluator's sampled leg selection.
pub fn tasks_with_fillers(n: usize) -> Vec<TaskT> {
    let mut all = tasks();
    let first_job = all.iter().map(|t| t.job).max().unwrap() + 1;
    for i in 0..n {
        let id: &'static str = Box::leak(format!("f{i}").into_boxed_str());
        all.push(TaskT { id, demand: DemandKind::None, places: vec![place(1 + (i * 3) / n.max(1), 0., &[(0., MAXT)])], job: first_job + i, value: 0. });
    }
    all
}

impl Lab {
    pub fn new(goal: GoalKind) -> Lab {
        Lab::with_tasks(goal, tasks())
    }

    pub fn with_tasks(goal: GoalKind, tasks: Vec<TaskT>) -> Lab {
        Lab::with_routing(goal, tasks, false)
    }

    /// The lab with time-dependent routing data (every vehicle is flagged `timedep`).
    pub fn timedep(goal: GoalKind) -> Lab {
        Lab::with_routing(goal, tasks(), true)
    }

    pub fn with_routing(goal: GoalKind, tasks: Vec<TaskT>, timedep: bool) -> Lab {
        let vehicles: Vec<VehicleT> = vehicles().into_iter().map(|v| VehicleT { timedep, ..v }).collect();
        let durations: Vec<f64> = (0..LOCS).flat_map(|i| (0..LOCS).map(move |j| dur(i, j))).collect();
        let distances: Vec<f64> = (0..LOCS).flat_map(|i| (0..LOCS).map(move |j| dist(i, j))).collect();
        // NOTE: the matrix provider (not SimpleTransportCost): it honours the duration scale of a profile
        let transport: Arc<dyn TransportCost> = if timedep {
            let doubled: Vec<f64> = durations.iter().map(|d| d * 2.).collect();
            create_matrix_transport_cost(vec![
                MatrixData::new(0, Some(0.), durations.clone(), distances.clone()),
                MatrixData::new(0, Some(TD_AT - 1.), durations, distances.clone()),
                MatrixData::new(0, Some(TD_AT), doubled, distances),
            ])
            .expect("lab matrices")
        } else {
            create_matrix_transport_cost(vec![MatrixData::new(0, None, durations, distances)]).expect("lab matrix")
        };

        let mk_single = |t: &TaskT| -> Single {
            let mut b = SingleBuilder::default().id(t.id);
            b = match t.demand {
                DemandKind::None => b,
                DemandKind::Delivery(d) => b.demand(Demand::delivery(d)),
                DemandKind::Pickup(d) => b.demand(Demand::pickup(d)),
                DemandKind::DynPickup(d) => b.demand(Demand::pudo_pickup(d)),
                DemandKind::DynDelivery(d) => b.demand(Demand::pudo_delivery(d)),
                DemandKind::Exchange(p, d) => b.demand(Demand {
                    pickup: (SingleDimLoad::new(p), SingleDimLoad::default()),
                    delivery: (SingleDimLoad::new(d), SingleDimLoad::default()),
                }),
            };
            let value = t.value;
            b = b.dimension(move |d| {
                d.set_value::<ValueKey, f64>(value);
            });
            for p in &t.places {
                b = b.add_place(
                    JobPlaceBuilder::default()
                        .location(Some(p.loc))
                        .duration(p.service)
                        .times(p.windows.iter().map(|(s, e)| TimeWindow::new(*s, *e)).collect())
                        .build()
                        .unwrap(),
                );
            }
            b.build().unwrap()
        };
        // jobs: singles first, then the multi jobs
        let n_jobs = tasks.iter().map(|t| t.job).max().unwrap() + 1;
        let mut jobs: Vec<Job> = vec![];
        let mut singles: Vec<Option<Arc<Single>>> = vec![None; tasks.len()];
        for j in 0..n_jobs {
            let members: Vec<usize> = (0..tasks.len()).filter(|i| tasks[*i].job == j).collect();
            if members.len() == 1 {
                let s = Arc::new(mk_single(&tasks[members[0]]));
                singles[members[0]] = Some(s.clone());
                jobs.push(Job::Single(s));
            } else {
                let mut mb = MultiBuilder::default().id(&format!("multi{j}"));
                let value = tasks[members[0]].value;
                mb = mb.dimension(move |d| {
                    d.set_value::<ValueKey, f64>(value);
                });
                for m in &members {
                    mb = mb.add_job(mk_single(&tasks[*m]));
                }
                let multi = mb.build().unwrap();
                for (k, m) in members.iter().enumerate() {
                    singles[*m] = Some(multi.jobs[k].clone());
                }
                jobs.push(Job::Multi(multi));
            }
        }
        let core_vehicles = vehicles.iter().map(|v| {
            let mut d = VehicleDetailBuilder::default().set_start_location(0).set_start_time(v.start_earliest).set_start_time_latest(v.start_latest);
            if v.closed {
                d = d.set_end_location(v.end_loc).set_end_time(v.end_latest);
            }
            let mut vehicle = VehicleBuilder::default()
                .id(v.id)
                .add_detail(d.build().unwrap())
                .capacity(SingleDimLoad::new(v.capacity))
                .set_distance_cost(v.per_distance)
                .set_duration_cost(v.per_time)
                .build()
                .unwrap();
            vehicle.costs.fixed = v.fixed;
            vehicle.profile = Profile::new(0, Some(v.scale));
            vehicle
        });
        let problem = ProblemBuilder::default()
            .add_jobs(jobs.clone().into_iter())
            .add_vehicles(core_vehicles)
            .with_goal(build_goal(goal, transport.clone()))
            .with_transport_cost(transport.clone())
            .with_logger(Arc::new(|_| {}))
            // every vehicle its own group, so that the registry offers each of them
            .with_vehicle_similarity(|actors: &[Arc<Actor>]| {
                let ids: Vec<String> = actors.iter().filter_map(|a| a.vehicle.dimens.get_vehicle_id().cloned()).collect();
                let key: Box<dyn Fn(&Actor) -> usize + Send + Sync> =
                    Box::new(move |a: &Actor| a.vehicle.dimens.get_vehicle_id().and_then(|id| ids.iter().position(|x| x == id)).unwrap_or(0));
                key
            })
            .build()
            .expect("cannot build lab problem");
        let environment = Arc::new(Environment::new(
            Arc::new(ScriptedRandom::new(vec![], Fallback::Default)),
            None,
            Parallelism::new_with_cpus(1),
            Arc::new(|_| {}),
            false,
        ));
        Lab { problem: Arc::new(problem), environment, tasks, vehicles, singles: singles.into_iter().map(|s| s.unwrap()).collect(), jobs, transport }
    }

    pub fn actor(&self, vehicle: usize) -> Arc<Actor> {
        let id = self.vehicles[vehicle].id;
        self.problem.fleet.actors.iter().find(|a| a.vehicle.dimens.get_vehicle_id().map(|s| s.as_str()) == Some(id)).unwrap().clone()
    }

    pub fn task_of(&self, single: &Arc<Single>) -> Option<usize> {
        self.singles.iter().position(|s| Arc::ptr_eq(s, single))
    }

    pub fn activity(&self, visit: &Visit) -> Activity {
        let t = &self.tasks[visit.task];
        let p = &t.places[visit.place];
        let w = p.windows[visit.window];
        Activity {
            place: ActPlace { idx: visit.place, location: p.loc, duration: p.service, time: TimeWindow::new(w.0, w.1) },
            schedule: Schedule::new(0., 0.),
            job: Some(self.singles[visit.task].clone()),
            commute: None,
        }
    }

    /// Builds a route context for the given vehicle and visiting sequence by direct tour edits + the library's own
    /// state acceptance; `departure` overrides the start departure (must lie inside the vehicle's start interval).
    pub fn route(&self, vehicle: usize, seq: &[Visit], departure: Option<f64>) -> RouteContext {
        let mut rc = RouteContext::new(self.actor(vehicle));
        for v in seq {
            rc.route_mut().tour.insert_last(self.activity(v));
        }
        if let Some(d) = departure {
            rc.route_mut().tour.get_mut(0).unwrap().schedule.departure = d;
        }
        self.problem.goal.accept_route_state(&mut rc);
        rc
    }

    /// Insertion context holding exactly the given route (if it has jobs); jobs outside of the tour are `unassigned`
    /// except `required` ones.
    pub fn context(&self, vehicle: usize, rc: RouteContext, required: &[usize]) -> InsertionContext {
        let mut ictx = InsertionContext::new_empty(self.problem.clone(), self.environment.clone());
        let in_tour: Vec<usize> = (0..self.jobs.len()).filter(|j| rc.route().tour.contains(&self.jobs[*j])).collect();
        if rc.route().tour.has_jobs() {
            let actor = self.actor(vehicle);
            let _ = ictx.solution.registry.get_route(&actor);
            ictx.solution.routes.push(rc);
        }
        for j in 0..self.jobs.len() {
            if in_tour.contains(&j) {
                continue;
            }
            if required.contains(&j) {
                ictx.solution.required.push(self.jobs[j].clone());
            } else {
                ictx.solution.unassigned.insert(self.jobs[j].clone(), UnassignmentInfo::Unknown);
            }
        }
        self.problem.goal.accept_solution_state(&mut ictx.solution);
        ictx
    }
}

/// One visit of a tour: task, chosen place, chosen time window.
#[derive(Clone, Copy, Debug, PartialEq, Eq, Hash)]
pub struct Visit {
    pub task: usize,
    pub place: usize,
    pub window: usize,
}

#[derive(Clone, Debug, Default)]
pub struct SimResult {
    pub feasible: bool,
    pub why: String,
    pub distance: f64,
    pub duration: f64,
    pub waiting: f64,
    pub arrivals: Vec<f64>,
    pub departures: Vec<f64>,
    pub end_arrival: f64,
}

/// Independent step-by-step simulation with plain arithmetic: time windows, shift end, capacity.
pub fn sim(tasks: &[TaskT], vehicle: &VehicleT, seq: &[Visit], departure: f64) -> SimResult {
    let mut r = SimResult { feasible: true, ..Default::default() };
    let fail = |r: &mut SimResult, why: String| {
        if r.feasible {
            r.feasible = false;
            r.why = why;
        }
    };
    if departure < vehicle.start_earliest || departure > vehicle.start_latest {
        fail(&mut r, format!("departure {departure} outside of the start interval"));
    }
    // every task at most once; multi parts complete and ordered (pickup before delivery)
    for (i, v) in seq.iter().enumerate() {
        if seq[..i].iter().any(|w| w.task == v.task) {
            fail(&mut r, format!("task {} twice", tasks[v.task].id));
        }
    }
    for v in seq {
        let job = tasks[v.task].job;
        let members: Vec<usize> = (0..tasks.len()).filter(|i| tasks[*i].job == job).collect();
        if members.len() > 1 {
            let pos: Vec<Option<usize>> = members.iter().map(|m| seq.iter().position(|w| w.task == *m)).collect();
            if pos.iter().any(|p| p.is_none()) {
                fail(&mut r, format!("multi job {job} is not complete"));
            } else if pos.windows(2).any(|w| w[0] > w[1]) {
                fail(&mut r, format!("multi job {job} out of order"));
            }
        }
    }
    // load
    let mut load: i32 = seq
        .iter()
        .map(|v| match tasks[v.task].demand {
            DemandKind::Delivery(d) | DemandKind::Exchange(_, d) => d,
            _ => 0,
        })
        .sum();
    if load > vehicle.capacity {
        fail(&mut r, format!("initial load {load} > capacity {}", vehicle.capacity));
    }
    let mut t = departure;
    let mut loc = 0usize;
    for v in seq {
        let task = &tasks[v.task];
        let p = &task.places[v.place];
        let (ws, we) = p.windows[v.window];
        let arrival = t + travel(vehicle, loc, p.loc, t);
        r.distance += dist(loc, p.loc);
        r.arrivals.push(arrival);
        if arrival > we {
            fail(&mut r, format!("arrival {arrival} at {} after window end {we}", task.id));
        }
        let start = arrival.max(ws);
        r.waiting += start - arrival;
        t = start + p.service;
        r.departures.push(t);
        loc = p.loc;
        load += match task.demand {
            DemandKind::Delivery(d) | DemandKind::DynDelivery(d) => -d,
            DemandKind::Pickup(d) | DemandKind::DynPickup(d) => d,
            DemandKind::Exchange(p, d) => p - d,
            DemandKind::None => 0,
        };
        if load > vehicle.capacity || load < 0 {
            fail(&mut r, format!("load {load} after {} (capacity {})", task.id, vehicle.capacity));
        }
    }
    if vehicle.closed {
        let arrival = t + travel(vehicle, loc, vehicle.end_loc, t);
        r.distance += dist(loc, vehicle.end_loc);
        r.end_arrival = arrival;
        if arrival > vehicle.end_latest {
            fail(&mut r, format!("arrival at the end {arrival} after shift end {}", vehicle.end_latest));
        }
        r.duration = arrival - departure;
    } else {
        r.end_arrival = t;
        r.duration = t - departure;
    }
    r
}

/// All visiting sequences of up to `max_len` tasks (each task once; multi parts complete and ordered), every place and
/// window choice.
pub fn sequences(tasks: &[TaskT], max_len: usize) -> Vec<Vec<Visit>> {
    fn rec(tasks: &[TaskT], cur: &mut Vec<Visit>, max_len: usize, out: &mut Vec<Vec<Visit>>) {
        // complete? (no dangling multi part)
        let complete = cur.iter().all(|v| {
            let job = tasks[v.task].job;
            (0..tasks.len()).filter(|i| tasks[*i].job == job).all(|m| cur.iter().any(|w| w.task == m))
        });
        if complete {
            out.push(cur.clone());
        }
        if cur.len() >= max_len {
            return;
        }
        for t in 0..tasks.len() {
            if cur.iter().any(|v| v.task == t) {
                continue;
            }
            // a later part of a multi job only after the earlier part
            let job = tasks[t].job;
            let earlier: Vec<usize> = (0..t).filter(|i| tasks[*i].job == job).collect();
            if earlier.iter().any(|e| !cur.iter().any(|v| v.task == *e)) {
                continue;
            }
            for (pi, p) in tasks[t].places.iter().enumerate() {
                for wi in 0..p.windows.len() {
                    cur.push(Visit { task: t, place: pi, window: wi });
                    rec(tasks, cur, max_len, out);
                    cur.pop();
                }
            }
        }
    }
    let mut out = vec![];
    rec(tasks, &mut vec![], max_len, &mut out);
    out
}
