//! Pragmatic-format layer: harness problem model, small-problem families, controlled solver runs, independent oracle.
pub mod families;
pub mod model;
pub mod oracle;
pub mod solve;
