//! Independent oracle for pragmatic solutions (DESIGN 4.2 / Appendix A): written from the format documentation,
//! shares no code with vrp-core features or the repository's checker. Input: the harness model of the problem and the
//! solution JSON as emitted by the library.

use super::model::*;
use serde_json::Value;
use std::collections::{HashMap, HashSet};

#[derive(Clone, Debug)]
pub struct Finding {
    /// rule id: C01:*, C02:*, C03:*
    pub rule: String,
    pub what: String,
}

impl Finding {
    fn new(rule: &str, what: String) -> Self {
        Self { rule: rule.to_string(), what }
    }
}

#[derive(Clone, Copy, Debug, PartialEq)]
pub enum Scope {
    All,
    Hard,       // C01
    Accounting, // C02
    Reporting,  // C03
}

/// One unit of tolerance where a profile scale makes travel times fractional (the output format rounds them).
pub fn tolerance(family: &str, problem: &PProblem) -> f64 {
    if family == "scale" || problem.vehicles.iter().any(|v| v.scale.is_some()) { 1. } else { 0. }
}

pub struct OracleOptions {
    /// tolerance for times/distances per leg (0 for integer families, 1 for scaled profiles)
    pub tol: f64,
}

impl Default for OracleOptions {
    fn default() -> Self {
        Self { tol: 0. }
    }
}

fn loc_index(v: &Value) -> Option<usize> {
    v.get("index").and_then(|i| i.as_u64()).map(|i| i as usize)
}

fn time_of(v: &Value) -> Option<f64> {
    v.as_str().and_then(parse_time)
}

#[derive(Clone, Debug)]
struct Act {
    job_id: String,
    kind: String,
    loc: Option<usize>,
    time: Option<(f64, f64)>,
    tag: Option<String>,
}

#[derive(Clone, Debug)]
struct Stop {
    loc: Option<usize>,
    arrival: f64,
    departure: f64,
    distance: Option<f64>,
    load: Vec<i64>,
    acts: Vec<Act>,
}

fn parse_stop(v: &Value) -> Result<Stop, String> {
    let time = v.get("time").ok_or("stop without time")?;
    let acts = v
        .get("activities")
        .and_then(|a| a.as_array())
        .ok_or("stop without activities")?
        .iter()
        .map(|a| {
            Ok(Act {
                job_id: a.get("jobId").and_then(|x| x.as_str()).ok_or("activity without jobId")?.to_string(),
                kind: a.get("type").and_then(|x| x.as_str()).ok_or("activity without type")?.to_string(),
                loc: a.get("location").and_then(loc_index),
                time: match a.get("time") {
                    Some(t) if !t.is_null() => Some((
                        t.get("start").and_then(time_of).ok_or("activity time.start")?,
                        t.get("end").and_then(time_of).ok_or("activity time.end")?,
                    )),
                    _ => None,
                },
                tag: a.get("jobTag").and_then(|x| x.as_str()).map(|s| s.to_string()),
            })
        })
        .collect::<Result<Vec<_>, String>>()?;
    Ok(Stop {
        loc: v.get("location").and_then(loc_index),
        arrival: time.get("arrival").and_then(time_of).ok_or("stop time.arrival")?,
        departure: time.get("departure").and_then(time_of).ok_or("stop time.departure")?,
        distance: v.get("distance").and_then(|d| d.as_f64()),
        load: v.get("load").and_then(|l| l.as_array()).map(|a| a.iter().filter_map(|x| x.as_i64()).collect()).unwrap_or_default(),
        acts,
    })
}

fn pad(v: &[i64], n: usize) -> Vec<i64> {
    let mut o = v.to_vec();
    o.resize(n.max(v.len()), 0);
    o
}

/// Checks the solution; returns typed findings.
pub fn check(problem: &PProblem, solution: &Value, opts: &OracleOptions) -> Vec<Finding> {
    let mut f: Vec<Finding> = vec![];
    let tol = opts.tol;
    let empty = vec![];
    let tours = solution.get("tours").and_then(|t| t.as_array()).unwrap_or(&empty);
    let unassigned = solution.get("unassigned").and_then(|t| t.as_array()).unwrap_or(&empty);
    let job_by_id: HashMap<&str, &PJob> = problem.jobs.iter().map(|j| (j.id.as_str(), j)).collect();
    let special = ["departure", "arrival", "break", "reload", "recharge"];

    // ---------------- C02: accounting over the whole solution
    let mut assigned: HashMap<String, Vec<(usize, usize, String)>> = HashMap::new(); // job -> (tour, position, type)
    let mut used_shifts: HashSet<(String, usize)> = HashSet::new();
    let mut parsed: Vec<Option<Vec<Stop>>> = vec![];
    for (ti, tour) in tours.iter().enumerate() {
        let vehicle_id = tour.get("vehicleId").and_then(|x| x.as_str()).unwrap_or("");
        let type_id = tour.get("typeId").and_then(|x| x.as_str()).unwrap_or("");
        let shift_index = tour.get("shiftIndex").and_then(|x| x.as_u64()).unwrap_or(0) as usize;
        let vt = problem.vehicles.iter().find(|v| v.type_id == type_id);
        match vt {
            None => f.push(Finding::new("C02:unknown-vehicle-type", format!("tour {ti} names type '{type_id}'"))),
            Some(vt) => {
                if !vt.vehicle_ids.iter().any(|v| v == vehicle_id) {
                    f.push(Finding::new("C02:unknown-vehicle", format!("tour {ti}: vehicle '{vehicle_id}' is not of type '{type_id}'")));
                }
                if shift_index >= vt.shifts.len() {
                    f.push(Finding::new("C02:unknown-shift", format!("tour {ti}: shift {shift_index} of '{type_id}'")));
                }
            }
        }
        if !used_shifts.insert((vehicle_id.to_string(), shift_index)) {
            f.push(Finding::new("C02:vehicle-shift-twice", format!("vehicle '{vehicle_id}' shift {shift_index} drives two tours")));
        }
        let stops: Result<Vec<Stop>, String> =
            tour.get("stops").and_then(|s| s.as_array()).ok_or("tour without stops".to_string()).and_then(|s| s.iter().map(parse_stop).collect());
        match stops {
            Ok(stops) => {
                let mut pos = 0;
                let mut job_acts = 0;
                for s in &stops {
                    for a in &s.acts {
                        pos += 1;
                        if special.contains(&a.job_id.as_str()) {
                            continue;
                        }
                        job_acts += 1;
                        if !job_by_id.contains_key(a.job_id.as_str()) {
                            f.push(Finding::new("C02:unknown-job", format!("tour {ti}: activity of unknown job '{}'", a.job_id)));
                        }
                        assigned.entry(a.job_id.clone()).or_default().push((ti, pos, a.kind.clone()));
                    }
                }
                if job_acts == 0 {
                    f.push(Finding::new("C02:tour-without-jobs", format!("tour {ti} ('{vehicle_id}') serves no job")));
                }
                parsed.push(Some(stops));
            }
            Err(e) => {
                f.push(Finding::new("C02:malformed-tour", format!("tour {ti}: {e}")));
                parsed.push(None);
            }
        }
    }
    let mut unassigned_ids: HashSet<String> = HashSet::new();
    for u in unassigned {
        let id = u.get("jobId").and_then(|x| x.as_str()).unwrap_or("").to_string();
        let reasons = u.get("reasons").and_then(|r| r.as_array()).map_or(0, |r| r.len());
        if reasons == 0 {
            f.push(Finding::new("C02:unassigned-without-reason", format!("job '{id}'")));
        }
        // breaks etc. are reported under generated ids (vehicle_break...): only plan jobs are judged here
        if !job_by_id.contains_key(id.as_str()) {
            if !id.contains("_break") && !id.contains("_reload") && !id.contains("_recharge") {
                f.push(Finding::new("C02:unknown-job", format!("unassigned list names unknown job '{id}'")));
            }
            continue;
        }
        if !unassigned_ids.insert(id.clone()) {
            f.push(Finding::new("C02:unassigned-twice", format!("job '{id}'")));
        }
    }
    for job in &problem.jobs {
        let a = assigned.get(&job.id);
        let u = unassigned_ids.contains(&job.id);
        match (a, u) {
            (None, false) => f.push(Finding::new("C02:job-lost", format!("job '{}' is neither assigned nor unassigned", job.id))),
            (Some(_), true) => f.push(Finding::new("C02:job-assigned-and-unassigned", format!("job '{}'", job.id))),
            (Some(acts), false) => {
                let tours_of: HashSet<usize> = acts.iter().map(|x| x.0).collect();
                if tours_of.len() > 1 {
                    f.push(Finding::new("C02:job-split", format!("job '{}' is served by tours {tours_of:?}", job.id)));
                }
                // every task exactly once (by kind)
                for kind in [TaskKind::Pickup, TaskKind::Delivery, TaskKind::Service, TaskKind::Replacement] {
                    let want = job.tasks.iter().filter(|t| t.kind == kind).count();
                    let got = acts.iter().filter(|x| x.2 == kind.name()).count();
                    if want != got {
                        f.push(Finding::new("C02:task-count", format!("job '{}': {got} {} activities, {want} tasks", job.id, kind.name())));
                    }
                }
                let unknown_kind = acts.iter().filter(|x| !["pickup", "delivery", "service", "replacement"].contains(&x.2.as_str())).count();
                if unknown_kind > 0 {
                    f.push(Finding::new("C02:task-kind", format!("job '{}' has activities of unexpected type", job.id)));
                }
                // pickups before deliveries
                let last_pickup = acts.iter().filter(|x| x.2 == "pickup").map(|x| x.1).max();
                let first_delivery = acts.iter().filter(|x| x.2 == "delivery").map(|x| x.1).min();
                if let (Some(p), Some(d)) = (last_pickup, first_delivery) {
                    if p > d && job.is_dynamic() {
                        f.push(Finding::new("C02:pickup-after-delivery", format!("job '{}'", job.id)));
                    }
                }
            }
            (None, true) => {}
        }
    }

    // ---------------- per tour replay: C01 + C03
    let mut resource_use: HashMap<String, Vec<i64>> = HashMap::new();
    let mut sum = [0f64; 9]; // cost, distance, duration, driving, serving, waiting, break, commuting, parking
    for (ti, tour) in tours.iter().enumerate() {
        let Some(stops) = parsed[ti].as_ref() else { continue };
        let type_id = tour.get("typeId").and_then(|x| x.as_str()).unwrap_or("");
        let vehicle_id = tour.get("vehicleId").and_then(|x| x.as_str()).unwrap_or("");
        let shift_index = tour.get("shiftIndex").and_then(|x| x.as_u64()).unwrap_or(0) as usize;
        let Some(vt) = problem.vehicles.iter().find(|v| v.type_id == type_id) else { continue };
        let Some(shift) = vt.shifts.get(shift_index) else { continue };
        let Some(matrix) = problem.matrix_of(&vt.profile) else { continue };
        let scale = vt.scale.unwrap_or(1.);
        let dims = vt.capacity.len();
        let here = |s: &str| format!("tour {ti} ('{vehicle_id}'): {s}");

        if stops.is_empty() {
            f.push(Finding::new("C02:malformed-tour", here("no stops")));
            continue;
        }
        let findings_before_tour = f.len();
        let mut schedule_independent: Vec<Finding> = vec![];
        let mut replay_undefined = false;
        let mut uses_unreachable_leg = false;
        // first stop: departure from the shift start
        let first = &stops[0];
        if first.loc != Some(shift.start_loc) || first.acts.first().map(|a| a.kind.as_str()) != Some("departure") {
            f.push(Finding::new("C03:departure-stop", here("first stop is not the departure from the shift start location")));
        }
        // a job served at the start location shares the stop with the departure activity: the vehicle then leaves
        // the depot state at the end of the departure activity, not at the departure of the stop
        let t0 = if first.acts.len() > 1 { first.acts[0].time.map_or(first.arrival, |t| t.1) } else { first.departure };
        if t0 < shift.start_earliest - tol {
            f.push(Finding::new("C01:shift-start", here(&format!("departure {} before earliest {}", t0, shift.start_earliest))));
        }
        if let Some(latest) = shift.start_latest {
            if t0 > latest + tol {
                f.push(Finding::new("C01:shift-start-latest", here(&format!("departure {} after latest allowed {}", t0, latest))));
            }
        }

        // reload intervals are counted per activity: an interval ends with a reload activity
        let mut interval_of_act: Vec<Vec<usize>> = vec![];
        let mut cur = 0;
        for s in stops.iter() {
            let mut v = vec![];
            for a in &s.acts {
                if a.kind == "reload" {
                    cur += 1;
                }
                v.push(cur);
            }
            interval_of_act.push(v);
        }
        // static deliveries per interval (loaded at the interval start), static pickups stay till the interval end
        let static_delivery_of = |interval: usize| -> Vec<i64> {
            let mut load = vec![0i64; dims];
            for (i, s) in stops.iter().enumerate() {
                for (ai, a) in s.acts.iter().enumerate() {
                    if interval_of_act[i][ai] != interval {
                        continue;
                    }
                    if let Some(job) = job_by_id.get(a.job_id.as_str()) {
                        // a replacement is a static exchange (loaded at the interval start, the same amount taken back) whatever else the job holds
                        if a.kind == "replacement" || (!job.is_dynamic() && a.kind == "delivery") {
                            if let Some(task) = job.tasks.iter().find(|t| t.kind.name() == a.kind) {
                                for (d, x) in pad(&task.demand, dims).iter().enumerate().take(dims) {
                                    load[d] += x;
                                }
                            }
                        }
                    }
                }
            }
            load
        };
        let mut load = static_delivery_of(0);
        let check_capacity = |load: &[i64], f: &mut Vec<Finding>, at: &str| {
            for d in 0..dims {
                if load[d] > vt.capacity[d] {
                    f.push(Finding::new("C01:capacity", here(&format!("load {load:?} exceeds capacity {:?} {at}", vt.capacity))));
                    break;
                }
                if load[d] < 0 {
                    f.push(Finding::new("C01:negative-load", here(&format!("load {load:?} {at}"))));
                    break;
                }
            }
        };
        check_capacity(&load, &mut f, "at departure");

        let (mut driving, mut serving, mut waiting, mut break_time) = (0f64, 0f64, 0f64, 0f64);
        let mut distance = 0f64;
        let mut prev_loc = shift.start_loc;
        let mut prev_departure = t0;
        let mut job_activity_count = 0usize;
        let mut used_breaks: HashSet<usize> = HashSet::new();
        let mut used_required: HashSet<usize> = HashSet::new();
        let mut used_stations: HashSet<usize> = HashSet::new();
        let mut distance_at_last_recharge = 0f64;
        let mut used_reloads: HashSet<usize> = HashSet::new();
        let mut groups_here: HashSet<String> = HashSet::new();
        let mut compat_here: HashSet<String> = HashSet::new();
        let mut last_order: Option<i64> = None;
        let has_tour_order_objective = problem
            .objectives
            .as_ref()
            .map(|o| o.to_string().contains("tour-order"))
            .unwrap_or(false);
        let mut matched_tasks: HashMap<String, HashSet<usize>> = HashMap::new();
        let mut dynamic_on_board = vec![0i64; dims];

        let mut last_activity_end = t0;
        for (si, stop) in stops.iter().enumerate() {
            let stop_loc = stop.loc.unwrap_or(prev_loc);
            if si > 0 {
                // travel
                // time-dependent routing: the matrix in effect when the leg starts
                let matrix = match problem.matrix_at(&vt.profile, prev_departure) {
                    Ok(Some(m)) => m,
                    Ok(None) => matrix,
                    Err(()) => {
                        replay_undefined = true;
                        matrix
                    }
                };
                if matrix.unreachable(prev_loc, stop_loc) {
                    f.push(Finding::new("C01:unreachable-leg", here(&format!("leg {prev_loc}->{stop_loc} is flagged unreachable"))));
                    // the matrix defines no travel time/distance for this leg: reported numbers cannot be replayed
                    replay_undefined = true;
                    uses_unreachable_leg = true;
                }
                let travel = matrix.dur(prev_loc, stop_loc) * scale;
                let expected_arrival = prev_departure + travel;
                if (stop.arrival - expected_arrival).abs() > tol + if scale != 1. { 1. } else { 0. } {
                    f.push(Finding::new(
                        "C03:arrival",
                        here(&format!("stop {si} arrival {} != previous departure {} + travel {} = {}", stop.arrival, prev_departure, travel, expected_arrival)),
                    ));
                }
                driving += stop.arrival - prev_departure;
                distance += matrix.dist(prev_loc, stop_loc);
                if let Some((limit, _)) = &shift.recharge {
                    if distance - distance_at_last_recharge > limit + tol {
                        f.push(Finding::new(
                            "C01:recharge-distance",
                            here(&format!("stop {si}: {} driven since the last recharge, limit {limit}", distance - distance_at_last_recharge)),
                        ));
                    }
                }
                if let Some(d) = stop.distance {
                    if (d - distance).abs() > tol {
                        f.push(Finding::new("C03:distance", here(&format!("stop {si} reports distance {d}, replay gives {distance}"))));
                    }
                }
            }
            // activities
            let mut cur_time = if si == 0 { t0 } else { stop.arrival };
            for (ai, a) in stop.acts.iter().enumerate() {
                let act_loc = a.loc.unwrap_or(stop_loc);
                match a.kind.as_str() {
                    "departure" => {
                        if si != 0 {
                            f.push(Finding::new("C03:departure-stop", here("departure activity in the middle of the tour")));
                        }
                    }
                    "arrival" => {
                        match shift.end {
                            Some((end_loc, latest)) => {
                                if act_loc != end_loc {
                                    f.push(Finding::new("C03:arrival-stop", here("arrival is not at the shift end location")));
                                }
                                let arrival_time = if stop.acts.len() > 1 { a.time.map_or(cur_time, |t| t.0).max(cur_time) } else { stop.arrival };
                                if arrival_time > latest + tol {
                                    f.push(Finding::new("C01:shift-end", here(&format!("arrival {} after shift end {}", arrival_time, latest))));
                                }
                            }
                            None => f.push(Finding::new("C03:arrival-stop", here("arrival activity in a tour of an open shift"))),
                        }
                        if si != stops.len() - 1 {
                            f.push(Finding::new("C03:arrival-stop", here("arrival activity before the last stop")));
                        }
                    }
                    "break" => {
                        // matched to a distinct break definition of this shift (by duration, location, tag)
                        let cand = shift.breaks.iter().enumerate().find(|(bi, b)| {
                            !used_breaks.contains(bi) && b.tag == a.tag && (b.loc.is_none() || b.loc == Some(act_loc))
                        });
                        match cand {
                            Some((bi, b)) => {
                                used_breaks.insert(bi);
                                let start = a.time.map_or(cur_time, |t| t.0);
                                let end = a.time.map_or(start + b.duration, |t| t.1);
                                if start > b.time.1 + tol {
                                    f.push(Finding::new("C01:break-window", here(&format!("break starts {} after its window end {}", start, b.time.1))));
                                }
                                if (end - start - b.duration).abs() > tol {
                                    f.push(Finding::new("C03:break-duration", here(&format!("break lasts {}, defined {}", end - start, b.duration))));
                                }
                                waiting += (start - cur_time).max(0.);
                                break_time += end - start;
                                cur_time = end;
                            }
                            None => {
                                // a required break of the shift (exact times): distinct, starts inside [earliest, latest], lasts as defined
                                let start = a.time.map_or(stop.arrival.max(cur_time), |t| t.0);
                                let end = a.time.map_or(stop.departure, |t| t.1);
                                let req = shift.required_breaks.iter().enumerate().filter(|(bi, _)| !used_required.contains(bi)).min_by(|(_, x), (_, y)| (x.0 - start).abs().total_cmp(&(y.0 - start).abs()));
                                match req {
                                    Some((bi, (earliest, latest, duration))) => {
                                        used_required.insert(bi);
                                        replay_undefined = true;
                                        if start < stop.arrival - tol && (end - stop.departure).abs() <= tol {
                                            // the interval is not a schedule: it begins before the vehicle has reached the stop (the writer
                                            // places a break which was taken when the next leg began as "stop departure - duration")
                                            f.push(Finding::new(
                                                "C01:required-break-window:reported-before-arrival",
                                                here(&format!("required break reported as [{start}, {end}] in a stop which is reached at {}", stop.arrival)),
                                            ));
                                        } else if start < earliest - tol || start > latest + tol {
                                            f.push(Finding::new("C01:required-break-window", here(&format!("required break starts at {start}, allowed [{earliest}, {latest}]"))));
                                        }
                                        if (end - start - duration).abs() > tol {
                                            f.push(Finding::new("C01:required-break-duration", here(&format!("required break lasts {}, defined {duration}", end - start))));
                                        }
                                        break_time += end - start;
                                        cur_time = end;
                                        // whatever the schedule around it is: a reported break is a part of the tour, it lies between
                                        // the moment the vehicle leaves and the moment it is back (judged after the replay filter)
                                        let tour_end = stops.last().map_or(f64::MAX, |s| s.arrival);
                                        if end < t0 - tol || start > tour_end + tol || (start < t0 - tol && end <= t0 + tol) {
                                            schedule_independent.push(Finding::new(
                                                "C03:required-break-outside-tour",
                                                here(&format!("required break reported as [{start}, {end}], the tour runs from {t0} to {tour_end}")),
                                            ));
                                        }
                                    }
                                    None => f.push(Finding::new("C02:break-not-defined", here("break activity does not match a distinct break of this shift"))),
                                }
                            }
                        }
                    }
                    "recharge" => {
                        // a distinct station of this shift; what was driven since the last recharge fits the limit
                        let stations = shift.recharge.as_ref().map(|r| r.1.as_slice()).unwrap_or(&[]);
                        match stations.iter().enumerate().find(|(i, st)| !used_stations.contains(i) && st.0 == act_loc && st.2 == a.tag) {
                            Some((i, st)) => {
                                used_stations.insert(i);
                                let start = a.time.map_or(cur_time, |t| t.0);
                                let end = a.time.map_or(start + st.1, |t| t.1);
                                if (end - start - st.1).abs() > tol {
                                    f.push(Finding::new("C03:recharge-duration", here(&format!("recharge lasts {}, defined {}", end - start, st.1))));
                                }
                                serving += end - start;
                                cur_time = end;
                                distance_at_last_recharge = distance;
                            }
                            None => f.push(Finding::new("C02:recharge-not-defined", here("recharge activity does not match a distinct station of this shift"))),
                        }
                    }
                    "reload" => {
                        let cand = shift.reloads.iter().enumerate().find(|(ri, r)| !used_reloads.contains(ri) && r.loc == act_loc && r.tag == a.tag);
                        match cand {
                            Some((ri, r)) => {
                                used_reloads.insert(ri);
                                let start = a.time.map_or(cur_time, |t| t.0);
                                let end = a.time.map_or(start + r.duration, |t| t.1);
                                serving += end - start;
                                cur_time = end;
                                // new interval: pickups are unloaded, new deliveries loaded
                                // dynamic (shipment) load stays on board across a reload
                                let mut next = static_delivery_of(interval_of_act[si][ai]);
                                // what is loaded here is drawn from the shared resource of the reload
                                if let Some(rid) = &r.resource_id {
                                    let e = resource_use.entry(rid.clone()).or_insert_with(|| vec![0i64; dims]);
                                    for d in 0..dims.min(e.len()) {
                                        e[d] += next[d];
                                    }
                                }
                                for d in 0..dims {
                                    next[d] += dynamic_on_board[d];
                                }
                                load = next;
                                check_capacity(&load, &mut f, "after reload");
                            }
                            None => f.push(Finding::new("C02:reload-not-defined", here("reload activity does not match a distinct reload of this shift"))),
                        }
                    }
                    kind => {
                        let Some(job) = job_by_id.get(a.job_id.as_str()) else { continue };
                        job_activity_count += 1;
                        // skills
                        if let Some(sk) = &job.skills {
                            let has = |s: &String| vt.skills.contains(s);
                            if !sk.all_of.iter().all(has) || (!sk.one_of.is_empty() && !sk.one_of.iter().any(has)) || sk.none_of.iter().any(has) {
                                f.push(Finding::new("C01:skills", here(&format!("job '{}' requires skills the vehicle type does not offer", job.id))));
                            }
                        }
                        if let Some(g) = &job.group {
                            groups_here.insert(g.clone());
                        }
                        if let Some(c) = &job.compatibility {
                            compat_here.insert(c.clone());
                        }
                        // task + place matching: same kind, not yet matched, place with same location whose duration fits
                        let start_hint = a.time.map(|t| t.0);
                        let used = matched_tasks.entry(job.id.clone()).or_default();
                        let mut best: Option<(usize, usize, f64, f64)> = None; // task idx, place idx, service start, duration
                        let mut tag_candidates: Vec<Option<String>> = vec![];
                        for (tidx, task) in job.tasks.iter().enumerate() {
                            if task.kind.name() != kind || used.contains(&tidx) {
                                continue;
                            }
                            for (pidx, p) in task.places.iter().enumerate() {
                                if p.loc != act_loc {
                                    continue;
                                }
                                // vicinity clustering changes service durations (serving policy, parking) and lets the walker wait:
                                // the task is matched by kind and location, the windows are judged by check_cluster_windows
                                let clustered = problem.clustering.is_some();
                                if let Some(t) = a.time {
                                    if !clustered && ((t.1 - t.0) - p.duration).abs() > tol {
                                        continue;
                                    }
                                }
                                let windows: Vec<(f64, f64)> = if p.times.is_empty() || clustered { vec![(f64::MIN, f64::MAX)] } else { p.times.clone() };
                                for (ws, we) in windows {
                                    let start = start_hint.unwrap_or(cur_time.max(ws));
                                    let start = start.max(cur_time);
                                    if start >= ws - tol && start <= we + tol && (clustered || start <= cur_time.max(ws) + tol) {
                                        tag_candidates.push(p.tag.clone());
                                        if best.is_none() {
                                            best = Some((tidx, pidx, start, p.duration));
                                        }
                                    }
                                }
                            }
                        }
                        match best {
                            None => {
                                f.push(Finding::new(
                                    "C01:time-window",
                                    here(&format!(
                                        "activity of job '{}' ({kind}) at location {act_loc}, time {cur_time}: no place/time window of the job admits it",
                                        job.id
                                    )),
                                ));
                                // keep the clock going with the reported times
                                if let Some(t) = a.time {
                                    cur_time = t.1;
                                }
                            }
                            Some((tidx, _pidx, start, duration)) => {
                                used.insert(tidx);
                                let task = &job.tasks[tidx];
                                waiting += (start - cur_time).max(0.);
                                serving += duration;
                                cur_time = start + duration;
                                if let Some(t) = a.time {
                                    if (t.0 - start).abs() > tol || (t.1 - cur_time).abs() > tol {
                                        f.push(Finding::new("C03:activity-time", here(&format!("job '{}' reports [{}, {}], replay gives [{start}, {cur_time}]", job.id, t.0, t.1))));
                                    }
                                }
                                // tag of the place actually used
                                if !tag_candidates.contains(&a.tag) {
                                    f.push(Finding::new(
                                        "C03:tag",
                                        here(&format!("job '{}' activity carries tag {:?}, the place(s) which admit it carry {:?}", job.id, a.tag, tag_candidates)),
                                    ));
                                }
                                // order
                                if !has_tour_order_objective {
                                    let order = task.order.unwrap_or(i64::MAX);
                                    if let Some(prev) = last_order {
                                        if order < prev {
                                            f.push(Finding::new("C01:task-order", here(&format!("job '{}' with order {order} after order {prev}", job.id))));
                                        }
                                    }
                                    last_order = Some(order);
                                }
                                // load
                                let demand = pad(&task.demand, dims);
                                for d in 0..dims {
                                    let change = match task.kind {
                                        TaskKind::Pickup => demand[d],
                                        TaskKind::Delivery => -demand[d],
                                        TaskKind::Replacement | TaskKind::Service => 0,
                                    };
                                    load[d] += change;
                                    if job.is_dynamic() {
                                        dynamic_on_board[d] += change;
                                    }
                                }
                                // a clustered stop is one visit: the walker carries what is delivered and picked up between the jobs,
                                // the load of the vehicle is judged when it leaves (as the repository's checker does per stop)
                                if problem.clustering.is_none() {
                                    check_capacity(&load, &mut f, &format!("after job '{}'", job.id));
                                }
                            }
                        }
                    }
                }
            }
            if (stop.departure - cur_time).abs() > tol && !(si == stops.len() - 1 && shift.end.is_some()) {
                f.push(Finding::new("C03:departure", here(&format!("stop {si} departure {} != end of its last activity {}", stop.departure, cur_time))));
            }
            if problem.clustering.is_some() {
                check_capacity(&load, &mut f, &format!("after stop {si}"));
            }
            if !stop.load.is_empty() {
                // at the end of an interval static pickups are still on board: reported load is after departure
                let reported = pad(&stop.load, dims);
                // at the final arrival everything picked up is unloaded
                let is_arrival = stop.acts.iter().any(|a| a.kind == "arrival");
                let mut expected = if is_arrival { vec![0i64; dims] } else { load.clone() };
                // the arrival stop reports what is left on board
                expected.truncate(dims.max(reported.len()));
                if reported[..dims.min(reported.len())] != expected[..dims.min(expected.len())] {
                    f.push(Finding::new("C03:load", here(&format!("stop {si} reports load {:?}, replay gives {expected:?}", stop.load))));
                }
            }
            prev_loc = stop_loc;
            prev_departure = if si == 0 { cur_time } else { stop.departure.max(cur_time) };
            last_activity_end = cur_time;
        }
        // a required break whose whole window lies inside the tour has to be there (or be listed under violations)
        {
            let tour_end = stops.last().map_or(t0, |s| s.arrival.max(s.departure));
            let listed = solution.get("violations").and_then(|v| v.as_array()).map_or(0, |v| {
                v.iter().filter(|x| x["type"] == "break" && x["vehicle_id"].as_str() == Some(vehicle_id) && x["shift_index"].as_u64().unwrap_or(0) as usize == shift_index).count()
            });
            let missing = shift.required_breaks.iter().enumerate().filter(|(bi, (e, l, d))| !used_required.contains(bi) && t0 <= *e && l + d < tour_end).count();
            if missing > listed {
                f.push(Finding::new("C01:required-break-missing", here(&format!("{missing} required break(s) fall inside the tour [{t0}, {tour_end}] but are not taken ({listed} listed as violations)"))));
            }
            if !shift.required_breaks.is_empty() {
                replay_undefined = true;
            }
        }
        // open shift: nothing after the last job; closed shift must end with arrival
        if let Some(_) = shift.end {
            if stops.last().and_then(|s| s.acts.last()).map(|a| a.kind.as_str()) != Some("arrival") {
                f.push(Finding::new("C03:arrival-stop", here("tour of a closed shift does not end with arrival")));
            }
        }
        // an arrival which shares its stop with jobs happens when the last of them is done
        let end_time = stops.last().map(|s| if shift.end.is_some() { if s.acts.len() > 1 { last_activity_end } else { s.arrival } } else { s.departure }).unwrap_or(t0);
        let duration = end_time - t0;
        // limits
        if let Some(l) = &vt.limits {
            if let Some(md) = l.max_distance {
                if distance > md + tol {
                    f.push(Finding::new("C01:max-distance", here(&format!("distance {distance} > limit {md}"))));
                }
            }
            if let Some(md) = l.max_duration {
                if duration > md + tol {
                    f.push(Finding::new("C01:max-duration", here(&format!("duration {duration} > limit {md}"))));
                }
            }
            if let Some(ts) = l.tour_size {
                if job_activity_count > ts {
                    f.push(Finding::new("C01:tour-size", here(&format!("{job_activity_count} activities > tour size {ts}"))));
                }
            }
        }
        if compat_here.len() > 1 {
            f.push(Finding::new("C01:compatibility", here(&format!("compatibility classes {compat_here:?} in one tour"))));
        }
        // groups: all assigned jobs of a group in one tour
        for g in &groups_here {
            let others: HashSet<usize> = problem
                .jobs
                .iter()
                .filter(|j| j.group.as_ref() == Some(g))
                .filter_map(|j| assigned.get(&j.id).map(|a| a[0].0))
                .collect();
            if others.len() > 1 {
                f.push(Finding::new("C01:group", format!("group '{g}' is spread over tours {others:?}")));
            }
        }
        // relations pinned to this vehicle/shift
        for r in problem.relations.iter().filter(|r| r.vehicle_id == vehicle_id && r.shift_index.unwrap_or(0) == shift_index) {
            let seq: Vec<String> = stops.iter().flat_map(|s| s.acts.iter().map(|a| a.job_id.clone())).collect();
            let positions: Vec<Option<usize>> = r.jobs.iter().map(|j| seq.iter().position(|x| x == j)).collect();
            if positions.iter().any(|p| p.is_none()) {
                let wher: Vec<String> = r
                    .jobs
                    .iter()
                    .zip(positions.iter())
                    .filter(|(_, p)| p.is_none())
                    .map(|(j, _)| {
                        if unassigned_ids.contains(j) {
                            format!("{j}: unassigned")
                        } else if let Some(a) = assigned.get(j) {
                            format!("{j}: in tour {}", a[0].0)
                        } else {
                            format!("{j}: nowhere")
                        }
                    })
                    .collect();
                // a job which could not be served at all is reported unassigned: only serving it elsewhere breaks the pinning
                if wher.iter().any(|w| w.contains("in tour")) {
                    f.push(Finding::new("C01:relation-vehicle", here(&format!("relation {:?}: {wher:?}", r.jobs))));
                }
                continue;
            }
            let pos: Vec<usize> = positions.into_iter().map(|p| p.unwrap()).collect();
            if r.kind != "any" && pos.windows(2).any(|w| w[0] > w[1]) {
                f.push(Finding::new("C01:relation-order", here(&format!("{} relation {:?} is out of order", r.kind, r.jobs))));
            }
            if r.kind == "strict" && pos.windows(2).any(|w| w[1] != w[0] + 1) {
                f.push(Finding::new("C01:relation-contiguity", here(&format!("strict relation {:?} is interleaved", r.jobs))));
            }
        }
        // statistic
        let stat = tour.get("statistic");
        let num = |path: &[&str]| -> Option<f64> {
            let mut v = stat?;
            for p in path {
                v = v.get(*p)?;
            }
            v.as_f64()
        };
        let cost = vt.fixed + distance * vt.cost_distance + duration * vt.cost_time;
        let expect = [
            ("distance", num(&["distance"]), distance),
            ("duration", num(&["duration"]), duration),
            ("driving", num(&["times", "driving"]), driving),
            ("serving", num(&["times", "serving"]), serving),
            ("waiting", num(&["times", "waiting"]), waiting),
            ("break", num(&["times", "break"]), break_time),
        ];
        let n_legs = stops.len() as f64;
        for (name, got, want) in expect {
            match got {
                Some(g) if (g - want).abs() <= tol * n_legs + 1e-9 => {}
                Some(g) => f.push(Finding::new(&format!("C03:statistic-{name}"), here(&format!("reported {g}, replay gives {want}")))),
                None => f.push(Finding::new(&format!("C03:statistic-{name}"), here("missing"))),
            }
        }
        match num(&["cost"]) {
            Some(g) if (g - cost).abs() <= 1e-6 * cost.abs().max(1.) + tol * n_legs * (vt.cost_distance + vt.cost_time) => {}
            got => f.push(Finding::new("C03:statistic-cost", here(&format!("reported {got:?}, fixed + distance*cd + duration*ct = {cost}")))),
        }
        // the reported numbers alone (no replay needed): the time split of a tour sums up to its duration
        {
            let parts: f64 = ["driving", "serving", "waiting", "break", "commuting", "parking"].iter().map(|k| num(&["times", k]).unwrap_or(0.)).sum();
            let n_acts: f64 = stops.iter().map(|s| s.acts.len() as f64).sum();
            if let Some(d) = num(&["duration"]) {
                // fractional times (scaled profile, serving multiplier of a cluster) are cut to whole units part by part
                let fractional = tol > 0. || problem.clustering.as_ref().is_some_and(|c| c["serving"]["type"] == "multiplier");
                if (parts - d).abs() > if fractional { (tol + 1.) * n_acts } else { 1e-9 } {
                    // recorded finding: a required break which the schedule takes when the vehicle leaves is written into the
                    // departure stop as [departure - duration, departure]; it is counted as break time and in the cost, the
                    // reported duration begins at the departure
                    let break_before_departure = stops[0].acts.iter().any(|a| a.kind == "break" && a.time.is_some_and(|t| (t.1 - stops[0].departure).abs() <= tol && ((t.1 - t.0) - (parts - d)).abs() <= tol));
                    let rule = if break_before_departure { "C03:statistic-split-reported:break-ends-at-departure" } else { "C03:statistic-split-reported" };
                    schedule_independent.push(Finding::new(rule, here(&format!("reported driving+serving+waiting+break+commuting+parking = {parts}, reported duration = {d}"))));
                }
            }
        }
        let parts_sum = driving + serving + waiting + break_time;
        if (parts_sum - duration).abs() > tol * n_legs + 1e-9 {
            f.push(Finding::new("C03:statistic-split", here(&format!("driving+serving+waiting+break = {parts_sum} != duration {duration}"))));
        }
        if replay_undefined {
            // the routing data defines no travel time for the leg: nothing which depends on the clock of this tour can be judged
            let timing = ["C01:time-window", "C01:shift-end", "C01:break-window", "C01:max-duration", "C01:max-distance"];
            let tail: Vec<Finding> = f.drain(findings_before_tour..).filter(|x| !x.rule.starts_with("C03:") && !(uses_unreachable_leg && timing.contains(&x.rule.as_str()))).collect();
            f.extend(tail);
        }
        f.append(&mut schedule_independent);
        for (i, key) in [["cost"].as_slice(), &["distance"], &["duration"], &["times", "driving"], &["times", "serving"], &["times", "waiting"], &["times", "break"], &["times", "commuting"], &["times", "parking"]].iter().enumerate() {
            sum[i] += num(key).unwrap_or(0.);
        }
    }
    // shared reload resources: what all tours draw from one resource fits its capacity
    for (id, cap) in &problem.resources {
        if let Some(used) = resource_use.get(id) {
            if used.iter().zip(cap.iter()).any(|(u, c)| u > c) {
                f.push(Finding::new("C01:resource", format!("resource '{id}': {used:?} drawn at its reloads, capacity {cap:?}")));
            }
        }
    }
    // a relation whose vehicle shift drives no tour at all while one of its jobs is served elsewhere
    for r in &problem.relations {
        let shift = r.shift_index.unwrap_or(0);
        let has_tour = tours.iter().any(|t| t.get("vehicleId").and_then(|x| x.as_str()) == Some(r.vehicle_id.as_str()) && t.get("shiftIndex").and_then(|x| x.as_u64()).unwrap_or(0) as usize == shift);
        if !has_tour {
            let elsewhere: Vec<&String> = r.jobs.iter().filter(|j| assigned.contains_key(*j)).collect();
            if !elsewhere.is_empty() {
                f.push(Finding::new("C01:relation-vehicle", format!("relation {:?} on '{}' shift {shift}: that shift drives no tour, {elsewhere:?} are served by other tours", r.jobs, r.vehicle_id)));
            }
        }
    }
    if problem.clustering.is_some() {
        f.extend(check_commutes(problem, tours, tol));
        f.extend(check_cluster_windows(problem, tours, tol));
    }
    // overall statistic = sum of tours
    let stat = solution.get("statistic");
    let keys: [&[&str]; 9] = [&["cost"], &["distance"], &["duration"], &["times", "driving"], &["times", "serving"], &["times", "waiting"], &["times", "break"], &["times", "commuting"], &["times", "parking"]];
    for (i, key) in keys.iter().enumerate() {
        let mut v = stat;
        for p in key.iter() {
            v = v.and_then(|x| x.get(*p));
        }
        let got = v.and_then(|x| x.as_f64());
        match got {
            Some(g) if (g - sum[i]).abs() <= 1e-6 * sum[i].abs().max(1.) => {}
            _ => f.push(Finding::new("C03:statistic-total", format!("overall {:?} = {got:?}, sum of tours = {}", key, sum[i]))),
        }
    }
    f
}

/// Vicinity clustering: the walk inside a clustered stop is replayed from the commute records and the routing data of the
/// clustering profile. Forward leg: from `forward.location` to the activity, backward leg: from the activity to
/// `backward.location`; the legs and the services follow each other without a gap, the walker starts and ends at the stop
/// location, the tour's commuting / parking times are the sums of these records.
fn check_commutes(problem: &PProblem, tours: &[Value], tol: f64) -> Vec<Finding> {
    let mut f = vec![];
    let Some(clustering) = problem.clustering.as_ref() else { return f };
    let profile = clustering["profile"]["matrix"].as_str().unwrap_or("");
    let scale = clustering["profile"]["scale"].as_f64().unwrap_or(1.);
    let Some(matrix) = problem.matrix_of(profile) else { return f };
    let eps = tol + 1e-6;
    let span = |v: &Value| -> Option<(f64, f64)> { Some((v.get("start").and_then(time_of)?, v.get("end").and_then(time_of)?)) };
    for (ti, tour) in tours.iter().enumerate() {
        let vehicle_id = tour.get("vehicleId").and_then(|x| x.as_str()).unwrap_or("");
        let here = |s: String| format!("tour {ti} ('{vehicle_id}'): {s}");
        let (mut commuting, mut parking_total) = (0., 0.);
        for (si, stop) in tour.get("stops").and_then(|s| s.as_array()).into_iter().flatten().enumerate() {
            let Some(stop_loc) = stop.get("location").and_then(loc_index) else { continue };
            let acts = stop.get("activities").and_then(|a| a.as_array()).cloned().unwrap_or_default();
            let parking = stop.get("parking").filter(|p| !p.is_null()).and_then(span);
            let has_commute = acts.iter().any(|a| a["commute"].get("forward").is_some() || a["commute"].get("backward").is_some());
            if let Some((s, e)) = parking {
                parking_total += e - s;
            }
            if !has_commute {
                continue;
            }
            let (Some(arrival), Some(departure)) = (stop["time"].get("arrival").and_then(time_of), stop["time"].get("departure").and_then(time_of)) else { continue };
            let mut cursor = parking.map_or(arrival, |p| p.1);
            let mut position = stop_loc;
            let plain = acts.iter().all(|a| !["break", "reload", "recharge", "departure", "arrival"].contains(&a["type"].as_str().unwrap_or("")));
            for a in &acts {
                let id = a["jobId"].as_str().unwrap_or("?");
                let a_loc = a.get("location").and_then(loc_index).unwrap_or(stop_loc);
                let (a_start, a_end) = a.get("time").filter(|t| !t.is_null()).and_then(span).unwrap_or((arrival, departure));
                match a["commute"].get("forward") {
                    Some(fw) => {
                        let from = fw.get("location").and_then(loc_index).unwrap_or(usize::MAX);
                        let (fs, fe) = span(&fw["time"]).unwrap_or((f64::NAN, f64::NAN));
                        commuting += fe - fs;
                        if from >= matrix.n || a_loc >= matrix.n {
                            f.push(Finding::new("C03:commute-forward", here(format!("stop {si} job '{id}': unknown location in the forward commute"))));
                            continue;
                        }
                        let (dist, dur) = (matrix.dist(from, a_loc), matrix.dur(from, a_loc) * scale);
                        if (fw["distance"].as_f64().unwrap_or(f64::NAN) - dist).abs() > eps || ((fe - fs) - dur).abs() > eps {
                            f.push(Finding::new(
                                "C03:commute-forward",
                                here(format!("stop {si} job '{id}': forward commute {from}->{a_loc} reported as distance {} / {} s, the routing data gives {dist} / {dur} s", fw["distance"], fe - fs)),
                            ));
                        }
                        if plain && (from != position || (fs - cursor).abs() > eps || fe > a_start + eps) {
                            f.push(Finding::new(
                                "C03:commute-chain",
                                here(format!("stop {si} job '{id}': forward commute starts at location {from} at {fs} and ends at {fe}; the walker is at {position} at {cursor}, the service starts at {a_start}")),
                            ));
                        }
                    }
                    None => {
                        if plain && a_loc != position {
                            f.push(Finding::new("C03:commute-chain", here(format!("stop {si} job '{id}': served at location {a_loc} while the walker is at {position}, no forward commute reported"))));
                        }
                    }
                }
                cursor = a_end;
                position = a_loc;
                if let Some(bw) = a["commute"].get("backward") {
                    let to = bw.get("location").and_then(loc_index).unwrap_or(usize::MAX);
                    let (bs, be) = span(&bw["time"]).unwrap_or((f64::NAN, f64::NAN));
                    commuting += be - bs;
                    if to >= matrix.n || a_loc >= matrix.n {
                        f.push(Finding::new("C03:commute-backward", here(format!("stop {si} job '{id}': unknown location in the backward commute"))));
                        continue;
                    }
                    let (dist, dur) = (matrix.dist(a_loc, to), matrix.dur(a_loc, to) * scale);
                    if (bw["distance"].as_f64().unwrap_or(f64::NAN) - dist).abs() > eps || ((be - bs) - dur).abs() > eps {
                        f.push(Finding::new(
                            "C03:commute-backward",
                            here(format!("stop {si} job '{id}': backward commute {a_loc}->{to} reported as distance {} / {} s, the routing data gives {dist} / {dur} s", bw["distance"], be - bs)),
                        ));
                    }
                    if plain && (bs - a_end).abs() > eps {
                        f.push(Finding::new("C03:commute-chain", here(format!("stop {si} job '{id}': backward commute starts at {bs}, the service ends at {a_end}"))));
                    }
                    cursor = be;
                    position = to;
                }
            }
            if plain && (position != stop_loc || (cursor - departure).abs() > eps) {
                f.push(Finding::new(
                    "C03:commute-chain",
                    here(format!("stop {si}: the walk ends at location {position} at {cursor}, the vehicle leaves location {stop_loc} at {departure}")),
                ));
            }
        }
        let times = &tour["statistic"]["times"];
        if let Some(reported) = times["commuting"].as_f64() {
            if (reported - commuting).abs() > eps.max(1.) {
                f.push(Finding::new("C03:statistic-commuting", here(format!("reported {reported}, the commute records sum up to {commuting}"))));
            }
        }
        if let Some(reported) = times["parking"].as_f64() {
            if (reported - parking_total).abs() > eps.max(1.) {
                f.push(Finding::new("C03:statistic-parking", here(format!("reported {reported}, the parking records sum up to {parking_total}"))));
            }
        }
    }
    f
}

/// Vicinity clustering: whatever the walk looks like, the service of every job starts inside one of the time windows of a
/// place of the job at the location where it is served (the general replay matches places by duration, which the serving
/// policies of a cluster change; this rule reads the reported service start only).
fn check_cluster_windows(problem: &PProblem, tours: &[Value], tol: f64) -> Vec<Finding> {
    let mut f = vec![];
    let eps = tol + 1e-6;
    let span = |v: &Value| -> Option<(f64, f64)> { Some((v.get("start").and_then(time_of)?, v.get("end").and_then(time_of)?)) };
    for (ti, tour) in tours.iter().enumerate() {
        let vehicle_id = tour.get("vehicleId").and_then(|x| x.as_str()).unwrap_or("");
        for (si, stop) in tour.get("stops").and_then(|s| s.as_array()).into_iter().flatten().enumerate() {
            let Some(stop_loc) = stop.get("location").and_then(loc_index) else { continue };
            let (Some(arrival), Some(_)) = (stop["time"].get("arrival").and_then(time_of), stop["time"].get("departure").and_then(time_of)) else { continue };
            for a in stop.get("activities").and_then(|a| a.as_array()).into_iter().flatten() {
                let kind = a["type"].as_str().unwrap_or("");
                let id = a["jobId"].as_str().unwrap_or("?");
                let Some(job) = problem.jobs.iter().find(|j| j.id == id) else { continue };
                let a_loc = a.get("location").and_then(loc_index).unwrap_or(stop_loc);
                let reported = a.get("time").filter(|t| !t.is_null()).and_then(span).map(|t| t.0);
                let admitted = job.tasks.iter().filter(|t| t.kind.name() == kind).flat_map(|t| t.places.iter()).filter(|p| p.loc == a_loc).any(|p| {
                    p.times.is_empty()
                        || p.times.iter().any(|(ws, we)| match reported {
                            Some(start) => start >= ws - eps && start <= we + eps,
                            // a stop with one activity reports no activity time: the service starts at max(arrival, window start)
                            None => arrival <= we + eps,
                        })
                });
                if !admitted {
                    f.push(Finding::new(
                        "C01:cluster-time-window",
                        format!("tour {ti} ('{vehicle_id}'): stop {si} job '{id}' ({kind}) at location {a_loc}: service starts at {:?} (stop reached at {arrival}), no time window of the job at that location admits it", reported),
                    ));
                }
            }
        }
    }
    f
}

/// Which rules can be judged for a problem: vicinity clustering changes service durations and adds walks, so of the
/// schedule replay only the rules which do not need the clock of the tour are kept (plus the commute replay and the
/// window rule written for clusters); the replay around a required break is undefined.
pub fn applies(f: &Finding, family: &str, problem: &PProblem) -> bool {
    let clustered = family == "cluster" || problem.clustering.is_some();
    let cluster_ok = !clustered
        || f.rule.starts_with("C02:")
        || f.rule == "C03:statistic-total"
        || f.rule.starts_with("C03:commute-")
        || f.rule == "C03:statistic-commuting"
        || f.rule == "C03:statistic-parking"
        || f.rule == "C03:statistic-split-reported"
        || [
            "C01:skills", "C01:group", "C01:compatibility", "C01:capacity", "C01:negative-load", "C01:cluster-time-window", "C01:tour-size",
            "C01:relation-vehicle", "C01:relation-order", "C01:relation-contiguity", "C01:task-order", "C01:resource", "C01:shift-end",
            "C01:shift-start", "C01:shift-start-latest", "C01:unreachable-leg",
        ]
        .contains(&f.rule.as_str());
    let reqbreak_ok = family != "reqbreak" || f.rule.starts_with("C02:") || f.rule.starts_with("C01:required-break") || f.rule == "C01:capacity" || f.rule == "C03:required-break-outside-tour" || f.rule.starts_with("C03:statistic-split-reported");
    cluster_ok && reqbreak_ok
}

pub fn in_scope(finding: &Finding, scope: Scope) -> bool {
    match scope {
        Scope::All => true,
        Scope::Hard => finding.rule.starts_with("C01:"),
        Scope::Accounting => finding.rule.starts_with("C02:"),
        Scope::Reporting => finding.rule.starts_with("C03:"),
    }
}
