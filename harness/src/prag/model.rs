//! Harness-side model of a pragmatic problem (the generator's source of truth) and its JSON rendering.

use serde_json::{Map, Value, json};

/// Formats epoch seconds as RFC3339 (UTC, whole seconds).
pub fn fmt_time(t: f64) -> String {
    let secs = t.round() as i64;
    let days = secs.div_euclid(86400);
    let rem = secs.rem_euclid(86400);
    // civil from days (Howard Hinnant)
    let z = days + 719468;
    let era = z.div_euclid(146097);
    let doe = z.rem_euclid(146097);
    let yoe = (doe - doe / 1460 + doe / 36524 - doe / 146096) / 365;
    let y = yoe + era * 400;
    let doy = doe - (365 * yoe + yoe / 4 - yoe / 100);
    let mp = (5 * doy + 2) / 153;
    let d = doy - (153 * mp + 2) / 5 + 1;
    let m = if mp < 10 { mp + 3 } else { mp - 9 };
    let y = if m <= 2 { y + 1 } else { y };
    format!("{:04}-{:02}-{:02}T{:02}:{:02}:{:02}Z", y, m, d, rem / 3600, rem % 3600 / 60, rem % 60)
}

/// Parses "YYYY-MM-DDThh:mm:ssZ" (what the writer emits) to epoch seconds.
pub fn parse_time(s: &str) -> Option<f64> {
    let b = s.as_bytes();
    if b.len() < 20 || b[4] != b'-' || b[7] != b'-' || b[10] != b'T' || b[13] != b':' || b[16] != b':' {
        return None;
    }
    let n = |a: usize, z: usize| s.get(a..z)?.parse::<i64>().ok();
    let (y, m, d, hh, mm, ss) = (n(0, 4)?, n(5, 7)?, n(8, 10)?, n(11, 13)?, n(14, 16)?, n(17, 19)?);
    if !s[19..].eq("Z") {
        return None;
    }
    let y2 = if m <= 2 { y - 1 } else { y };
    let era = y2.div_euclid(400);
    let yoe = y2.rem_euclid(400);
    let mp = if m > 2 { m - 3 } else { m + 9 };
    let doy = (153 * mp + 2) / 5 + d - 1;
    let doe = yoe * 365 + yoe / 4 - yoe / 100 + doy;
    let days = era * 146097 + doe - 719468;
    Some((days * 86400 + hh * 3600 + mm * 60 + ss) as f64)
}

#[derive(Clone, Copy, Debug, PartialEq, Eq, Hash)]
pub enum TaskKind {
    Pickup,
    Delivery,
    Service,
    Replacement,
}

impl TaskKind {
    pub fn name(&self) -> &'static str {
        match self {
            TaskKind::Pickup => "pickup",
            TaskKind::Delivery => "delivery",
            TaskKind::Service => "service",
            TaskKind::Replacement => "replacement",
        }
    }
    pub fn list(&self) -> &'static str {
        match self {
            TaskKind::Pickup => "pickups",
            TaskKind::Delivery => "deliveries",
            TaskKind::Service => "services",
            TaskKind::Replacement => "replacements",
        }
    }
}

#[derive(Clone, Debug)]
pub struct PPlace {
    pub loc: usize,
    pub duration: f64,
    pub times: Vec<(f64, f64)>,
    pub tag: Option<String>,
}

#[derive(Clone, Debug)]
pub struct PTask {
    pub kind: TaskKind,
    pub places: Vec<PPlace>,
    pub demand: Vec<i64>,
    pub order: Option<i64>,
}

#[derive(Clone, Debug, Default)]
pub struct PSkills {
    pub all_of: Vec<String>,
    pub one_of: Vec<String>,
    pub none_of: Vec<String>,
}

#[derive(Clone, Debug)]
pub struct PJob {
    pub id: String,
    pub tasks: Vec<PTask>,
    pub skills: Option<PSkills>,
    pub group: Option<String>,
    pub compatibility: Option<String>,
    pub value: Option<f64>,
}

impl PJob {
    /// Shipment (dynamic) demand: a job with both pickups and deliveries.
    pub fn is_dynamic(&self) -> bool {
        self.tasks.iter().any(|t| t.kind == TaskKind::Pickup) && self.tasks.iter().any(|t| t.kind == TaskKind::Delivery)
    }
}

#[derive(Clone, Debug)]
pub struct PBreak {
    /// absolute window
    pub time: (f64, f64),
    pub duration: f64,
    pub loc: Option<usize>,
    pub tag: Option<String>,
    /// write the window as offsets from the departure (needs start.latest == start.earliest)
    pub offset: bool,
    /// skip-if-no-intersection (default) | skip-if-arrival-before-end
    pub policy: Option<String>,
}

#[derive(Clone, Debug)]
pub struct PReload {
    pub loc: usize,
    pub duration: f64,
    pub times: Vec<(f64, f64)>,
    pub tag: Option<String>,
    /// shared reload resource (fleet.resources)
    pub resource_id: Option<String>,
}

#[derive(Clone, Debug)]
pub struct PShift {
    pub start_loc: usize,
    pub start_earliest: f64,
    pub start_latest: Option<f64>,
    /// (location, latest)
    pub end: Option<(usize, f64)>,
    pub breaks: Vec<PBreak>,
    pub reloads: Vec<PReload>,
    /// required breaks with exact times: (earliest start, latest start, duration)
    pub required_breaks: Vec<(f64, f64, f64)>,
    /// write the times of the required breaks as offsets from the departure (needs start.latest == start.earliest)
    pub required_offset: bool,
    /// recharge stations: (max distance between recharges, stations as (location, duration, tag))
    pub recharge: Option<(f64, Vec<(usize, f64, Option<String>)>)>,
}

#[derive(Clone, Debug, Default)]
pub struct PLimits {
    pub max_distance: Option<f64>,
    pub max_duration: Option<f64>,
    pub tour_size: Option<usize>,
}

#[derive(Clone, Debug)]
pub struct PVehicleType {
    pub type_id: String,
    pub vehicle_ids: Vec<String>,
    pub profile: String,
    pub scale: Option<f64>,
    pub fixed: f64,
    pub cost_distance: f64,
    pub cost_time: f64,
    pub shifts: Vec<PShift>,
    pub capacity: Vec<i64>,
    pub skills: Vec<String>,
    pub limits: Option<PLimits>,
}

#[derive(Clone, Debug)]
pub struct PMatrix {
    pub profile: String,
    pub n: usize,
    pub durations: Vec<i64>,
    pub distances: Vec<i64>,
    pub error_codes: Option<Vec<i64>>,
    /// time-dependent routing: the matrix is in effect from this time on
    pub timestamp: Option<f64>,
}

#[derive(Clone, Debug)]
pub struct PRelation {
    pub kind: String, // any | sequence | strict
    pub jobs: Vec<String>,
    pub vehicle_id: String,
    pub shift_index: Option<usize>,
}

#[derive(Clone, Debug)]
pub struct PProblem {
    pub name: String,
    pub jobs: Vec<PJob>,
    pub vehicles: Vec<PVehicleType>,
    pub matrices: Vec<PMatrix>,
    pub relations: Vec<PRelation>,
    /// rendered as is, e.g. [{"type": "minimize-unassigned"}, ...]
    pub objectives: Option<Value>,
    /// plan.clustering, rendered as is
    pub clustering: Option<Value>,
    /// fleet.resources: (id, capacity) of shared reload resources
    pub resources: Vec<(String, Vec<i64>)>,
}

fn times_json(times: &[(f64, f64)]) -> Value {
    json!(times.iter().map(|(s, e)| json!([fmt_time(*s), fmt_time(*e)])).collect::<Vec<_>>())
}

impl PProblem {
    pub fn problem_json(&self) -> Value {
        let jobs: Vec<Value> = self
            .jobs
            .iter()
            .map(|j| {
                let mut o = Map::new();
                o.insert("id".into(), json!(j.id));
                for kind in [TaskKind::Pickup, TaskKind::Delivery, TaskKind::Service, TaskKind::Replacement] {
                    let tasks: Vec<Value> = j
                        .tasks
                        .iter()
                        .filter(|t| t.kind == kind)
                        .map(|t| {
                            let places: Vec<Value> = t
                                .places
                                .iter()
                                .map(|p| {
                                    let mut po = Map::new();
                                    po.insert("location".into(), json!({"index": p.loc}));
                                    po.insert("duration".into(), json!(p.duration));
                                    if !p.times.is_empty() {
                                        po.insert("times".into(), times_json(&p.times));
                                    }
                                    if let Some(tag) = &p.tag {
                                        po.insert("tag".into(), json!(tag));
                                    }
                                    Value::Object(po)
                                })
                                .collect();
                            let mut to = Map::new();
                            to.insert("places".into(), json!(places));
                            if !t.demand.is_empty() {
                                to.insert("demand".into(), json!(t.demand));
                            }
                            if let Some(order) = t.order {
                                to.insert("order".into(), json!(order));
                            }
                            Value::Object(to)
                        })
                        .collect();
                    if !tasks.is_empty() {
                        o.insert(kind.list().into(), json!(tasks));
                    }
                }
                if let Some(s) = &j.skills {
                    let mut so = Map::new();
                    if !s.all_of.is_empty() {
                        so.insert("allOf".into(), json!(s.all_of));
                    }
                    if !s.one_of.is_empty() {
                        so.insert("oneOf".into(), json!(s.one_of));
                    }
                    if !s.none_of.is_empty() {
                        so.insert("noneOf".into(), json!(s.none_of));
                    }
                    o.insert("skills".into(), Value::Object(so));
                }
                if let Some(g) = &j.group {
                    o.insert("group".into(), json!(g));
                }
                if let Some(c) = &j.compatibility {
                    o.insert("compatibility".into(), json!(c));
                }
                if let Some(v) = j.value {
                    o.insert("value".into(), json!(v));
                }
                Value::Object(o)
            })
            .collect();
        let vehicles: Vec<Value> = self
            .vehicles
            .iter()
            .map(|v| {
                let shifts: Vec<Value> = v
                    .shifts
                    .iter()
                    .map(|s| {
                        let mut start = Map::new();
                        start.insert("earliest".into(), json!(fmt_time(s.start_earliest)));
                        if let Some(l) = s.start_latest {
                            start.insert("latest".into(), json!(fmt_time(l)));
                        }
                        start.insert("location".into(), json!({"index": s.start_loc}));
                        let mut so = Map::new();
                        so.insert("start".into(), Value::Object(start));
                        if let Some((loc, latest)) = s.end {
                            so.insert("end".into(), json!({"latest": fmt_time(latest), "location": {"index": loc}}));
                        }
                        if !s.breaks.is_empty() || !s.required_breaks.is_empty() {
                            let (offset, t0) = (s.required_offset, s.start_earliest);
                            let required = s.required_breaks.iter().map(move |(e, l, d)| {
                                if offset { json!({"time": {"earliest": e - t0, "latest": l - t0}, "duration": d}) } else { json!({"time": {"earliest": fmt_time(*e), "latest": fmt_time(*l)}, "duration": d}) }
                            });
                            let breaks: Vec<Value> = s
                                .breaks
                                .iter()
                                .map(|b| {
                                    let mut place = Map::new();
                                    place.insert("duration".into(), json!(b.duration));
                                    if let Some(l) = b.loc {
                                        place.insert("location".into(), json!({"index": l}));
                                    }
                                    if let Some(t) = &b.tag {
                                        place.insert("tag".into(), json!(t));
                                    }
                                    let mut o = if b.offset {
                                        json!({"time": [b.time.0 - s.start_earliest, b.time.1 - s.start_earliest], "places": [Value::Object(place)]})
                                    } else {
                                        json!({"time": [fmt_time(b.time.0), fmt_time(b.time.1)], "places": [Value::Object(place)]})
                                    };
                                    if let Some(p) = &b.policy {
                                        o["policy"] = json!(p);
                                    }
                                    o
                                })
                                .chain(required)
                                .collect();
                            so.insert("breaks".into(), json!(breaks));
                        }
                        if let Some((max_distance, stations)) = &s.recharge {
                            let st: Vec<Value> = stations
                                .iter()
                                .map(|(loc, duration, tag)| {
                                    let mut o = json!({"location": {"index": loc}, "duration": duration});
                                    if let Some(t) = tag {
                                        o["tag"] = json!(t);
                                    }
                                    o
                                })
                                .collect();
                            so.insert("recharges".into(), json!({"maxDistance": max_distance, "stations": st}));
                        }
                        if !s.reloads.is_empty() {
                            let reloads: Vec<Value> = s
                                .reloads
                                .iter()
                                .map(|r| {
                                    let mut ro = Map::new();
                                    ro.insert("location".into(), json!({"index": r.loc}));
                                    ro.insert("duration".into(), json!(r.duration));
                                    if !r.times.is_empty() {
                                        ro.insert("times".into(), times_json(&r.times));
                                    }
                                    if let Some(t) = &r.tag {
                                        ro.insert("tag".into(), json!(t));
                                    }
                                    if let Some(id) = &r.resource_id {
                                        ro.insert("resourceId".into(), json!(id));
                                    }
                                    Value::Object(ro)
                                })
                                .collect();
                            so.insert("reloads".into(), json!(reloads));
                        }
                        Value::Object(so)
                    })
                    .collect();
                let mut profile = Map::new();
                profile.insert("matrix".into(), json!(v.profile));
                if let Some(s) = v.scale {
                    profile.insert("scale".into(), json!(s));
                }
                let mut o = Map::new();
                o.insert("typeId".into(), json!(v.type_id));
                o.insert("vehicleIds".into(), json!(v.vehicle_ids));
                o.insert("profile".into(), Value::Object(profile));
                o.insert("costs".into(), json!({"fixed": v.fixed, "distance": v.cost_distance, "time": v.cost_time}));
                o.insert("shifts".into(), json!(shifts));
                o.insert("capacity".into(), json!(v.capacity));
                if !v.skills.is_empty() {
                    o.insert("skills".into(), json!(v.skills));
                }
                if let Some(l) = &v.limits {
                    let mut lo = Map::new();
                    if let Some(x) = l.max_distance {
                        lo.insert("maxDistance".into(), json!(x));
                    }
                    if let Some(x) = l.max_duration {
                        lo.insert("maxDuration".into(), json!(x));
                    }
                    if let Some(x) = l.tour_size {
                        lo.insert("tourSize".into(), json!(x));
                    }
                    o.insert("limits".into(), Value::Object(lo));
                }
                Value::Object(o)
            })
            .collect();
        let mut profiles: Vec<String> = vec![];
        for m in &self.matrices {
            if !profiles.contains(&m.profile) {
                profiles.push(m.profile.clone());
            }
        }
        let mut plan = Map::new();
        plan.insert("jobs".into(), json!(jobs));
        if !self.relations.is_empty() {
            let rels: Vec<Value> = self
                .relations
                .iter()
                .map(|r| {
                    let mut o = Map::new();
                    o.insert("type".into(), json!(r.kind));
                    o.insert("jobs".into(), json!(r.jobs));
                    o.insert("vehicleId".into(), json!(r.vehicle_id));
                    if let Some(s) = r.shift_index {
                        o.insert("shiftIndex".into(), json!(s));
                    }
                    Value::Object(o)
                })
                .collect();
            plan.insert("relations".into(), json!(rels));
        }
        if let Some(c) = &self.clustering {
            plan.insert("clustering".into(), c.clone());
        }
        let mut root = Map::new();
        root.insert("plan".into(), Value::Object(plan));
        let mut fleet = json!({"vehicles": vehicles, "profiles": profiles.iter().map(|p| json!({"name": p})).collect::<Vec<_>>()});
        if !self.resources.is_empty() {
            fleet["resources"] = json!(self.resources.iter().map(|(id, cap)| json!({"type": "reload", "id": id, "capacity": cap})).collect::<Vec<_>>());
        }
        root.insert("fleet".into(), fleet);
        if let Some(o) = &self.objectives {
            root.insert("objectives".into(), o.clone());
        }
        Value::Object(root)
    }

    pub fn matrices_json(&self) -> Vec<Value> {
        self.matrices
            .iter()
            .map(|m| {
                let mut o = Map::new();
                o.insert("profile".into(), json!(m.profile));
                o.insert("travelTimes".into(), json!(m.durations));
                o.insert("distances".into(), json!(m.distances));
                if let Some(e) = &m.error_codes {
                    o.insert("errorCodes".into(), json!(e));
                }
                if let Some(t) = m.timestamp {
                    o.insert("timestamp".into(), json!(fmt_time(t)));
                }
                Value::Object(o)
            })
            .collect()
    }

    /// Largest location index used anywhere in the problem.
    pub fn max_location(&self) -> usize {
        let mut m = 0;
        for j in &self.jobs {
            for t in &j.tasks {
                for p in &t.places {
                    m = m.max(p.loc);
                }
            }
        }
        for v in &self.vehicles {
            for s in &v.shifts {
                m = m.max(s.start_loc);
                if let Some((l, _)) = s.end {
                    m = m.max(l);
                }
                for b in &s.breaks {
                    if let Some(l) = b.loc {
                        m = m.max(l);
                    }
                }
                for r in &s.reloads {
                    m = m.max(r.loc);
                }
            }
        }
        m
    }

    /// The format requires the used location indices to be exactly 0..n-1 with an n x n matrix: locations are
    /// renumbered by rank and the matrices are cut down to the used rows/columns.
    pub fn fit_matrices(mut self) -> Self {
        let mut used: Vec<usize> = vec![];
        let mut note = |l: usize, used: &mut Vec<usize>| {
            if !used.contains(&l) {
                used.push(l);
            }
        };
        for j in &self.jobs {
            for t in &j.tasks {
                for p in &t.places {
                    note(p.loc, &mut used);
                }
            }
        }
        for v in &self.vehicles {
            for s in &v.shifts {
                note(s.start_loc, &mut used);
                if let Some((l, _)) = s.end {
                    note(l, &mut used);
                }
                for b in &s.breaks {
                    if let Some(l) = b.loc {
                        note(l, &mut used);
                    }
                }
                for r in &s.reloads {
                    note(r.loc, &mut used);
                }
                if let Some((_, stations)) = &s.recharge {
                    for (l, _, _) in stations {
                        note(*l, &mut used);
                    }
                }
            }
        }
        used.sort();
        let rank = |l: usize| used.iter().position(|x| *x == l).unwrap();
        for j in self.jobs.iter_mut() {
            for t in j.tasks.iter_mut() {
                for p in t.places.iter_mut() {
                    p.loc = rank(p.loc);
                }
            }
        }
        for v in self.vehicles.iter_mut() {
            for s in v.shifts.iter_mut() {
                s.start_loc = rank(s.start_loc);
                if let Some((l, t)) = s.end {
                    s.end = Some((rank(l), t));
                }
                for b in s.breaks.iter_mut() {
                    b.loc = b.loc.map(rank);
                }
                for r in s.reloads.iter_mut() {
                    r.loc = rank(r.loc);
                }
                if let Some((_, stations)) = s.recharge.as_mut() {
                    for st in stations.iter_mut() {
                        st.0 = rank(st.0);
                    }
                }
            }
        }
        let n = used.len();
        for m in self.matrices.iter_mut() {
            let old_n = m.n;
            let cut = |v: &Vec<i64>| -> Vec<i64> { used.iter().flat_map(|i| used.iter().map(move |j| (*i, *j))).map(|(i, j)| v[i * old_n + j]).collect() };
            m.durations = cut(&m.durations);
            m.distances = cut(&m.distances);
            m.error_codes = m.error_codes.as_ref().map(cut);
            m.n = n;
        }
        self
    }

    pub fn matrix_of(&self, profile: &str) -> Option<&PMatrix> {
        self.matrices.iter().find(|m| m.profile == profile)
    }

    /// The matrix in effect for a leg which departs at `time`. Time-dependent routing: the matrix with the latest timestamp
    /// not after `time` (the first one before all of them). Err when `time` lies strictly between two timestamps: the
    /// library interpolates travel times there, which the routing data alone does not define.
    pub fn matrix_at(&self, profile: &str, time: f64) -> Result<Option<&PMatrix>, ()> {
        let mut ms: Vec<&PMatrix> = self.matrices.iter().filter(|m| m.profile == profile).collect();
        if ms.len() <= 1 || ms.iter().any(|m| m.timestamp.is_none()) {
            return Ok(ms.first().copied());
        }
        ms.sort_by(|a, b| a.timestamp.unwrap().total_cmp(&b.timestamp.unwrap()));
        if time <= ms[0].timestamp.unwrap() {
            return Ok(Some(ms[0]));
        }
        if time >= ms.last().unwrap().timestamp.unwrap() {
            return Ok(ms.last().copied());
        }
        match ms.iter().find(|m| m.timestamp.unwrap() == time) {
            Some(m) => Ok(Some(m)),
            None => Err(()),
        }
    }
}

impl PMatrix {
    pub fn dur(&self, from: usize, to: usize) -> f64 {
        self.durations[from * self.n + to] as f64
    }
    pub fn dist(&self, from: usize, to: usize) -> f64 {
        self.distances[from * self.n + to] as f64
    }
    pub fn unreachable(&self, from: usize, to: usize) -> bool {
        self.error_codes.as_ref().is_some_and(|e| e[from * self.n + to] != 0)
    }
}

/// Positions of the 5 locations on a line: all pairwise differences are distinct.
pub const POS: [i64; 5] = [0, 10, 26, 48, 75];

/// Standard matrix: integral, asymmetric (+1 forward), triangle-respecting; distances differ from durations.
/// The standard construction over other positions on the line (e.g. locations close enough to be clustered).
pub fn line_matrix(profile: &str, pos: &[i64]) -> PMatrix {
    let n = pos.len();
    let mut durations = vec![];
    let mut distances = vec![];
    for i in 0..n {
        for j in 0..n {
            let d = (pos[i] - pos[j]).abs();
            durations.push(if i == j { 0 } else { d + if j > i { 1 } else { 0 } });
            distances.push(if i == j { 0 } else { 2 * d + if j < i { 3 } else { 0 } });
        }
    }
    PMatrix { profile: profile.to_string(), n, durations, distances, error_codes: None, timestamp: None }
}

pub fn standard_matrix(profile: &str, n: usize) -> PMatrix {
    let mut durations = vec![];
    let mut distances = vec![];
    for i in 0..n {
        for j in 0..n {
            let d = (POS[i] - POS[j]).abs();
            durations.push(if i == j { 0 } else { d + if j > i { 1 } else { 0 } });
            distances.push(if i == j { 0 } else { 2 * d + if j < i { 3 } else { 0 } });
        }
    }
    PMatrix { profile: profile.to_string(), n, durations, distances, error_codes: None, timestamp: None }
}
