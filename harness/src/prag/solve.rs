//! Runs the real solver on a harness problem under a fully controlled environment (DESIGN section 2).

use super::model::*;
use crate::env::*;
use crate::catch;
use rosomaxa::evolution::TelemetryMode;
use rosomaxa::population::{Greedy, Rosomaxa, RosomaxaConfig};
use rosomaxa::prelude::*;
use rosomaxa::utils::Parallelism;
use serde_json::Value;
use std::io::{BufReader, BufWriter};
use std::sync::Arc;
use vrp_core::models::common::Footprint;
use vrp_core::models::{Problem as CoreProblem, Solution as CoreSolution};
use vrp_core::solver::*;
use vrp_pragmatic::format::problem::PragmaticProblem;
use vrp_pragmatic::format::solution::{PragmaticOutputType, read_init_solution, write_pragmatic};

#[derive(Clone, Copy, Debug, PartialEq, Eq)]
pub enum PopKind {
    Greedy,
    Elitism,
    /// rosomaxa with a tiny initial size so that exploration/exploitation are reached in a few generations
    RosomaxaSmall,
    /// what `prebuild()` picks
    Default,
}

#[derive(Clone, Copy, Debug, PartialEq, Eq)]
pub enum HyperKind {
    Dynamic,
    Static,
    /// one operator only, so that every generation (and every interruption point) lies inside it
    Decompose,
    Infeasible,
    Redistribute,
    LkhDiverse,
}

impl HyperKind {
    pub fn name(&self) -> &'static str {
        match self {
            HyperKind::Dynamic => "Dynamic",
            HyperKind::Static => "Static",
            HyperKind::Decompose => "Decompose",
            HyperKind::Infeasible => "Infeasible",
            HyperKind::Redistribute => "Redistribute",
            HyperKind::LkhDiverse => "LkhDiverse",
        }
    }
    pub fn from_name(s: &str) -> HyperKind {
        [HyperKind::Static, HyperKind::Decompose, HyperKind::Infeasible, HyperKind::Redistribute, HyperKind::LkhDiverse].into_iter().find(|k| k.name() == s).unwrap_or(HyperKind::Dynamic)
    }
}

#[derive(Clone, Debug)]
pub struct SolveCfg {
    pub population: PopKind,
    pub hyper: HyperKind,
    pub generations: usize,
    pub seed: u64,
    pub plan: Option<PlanPolicy>,
    /// (pools, threads) => Parallelism::new, None => default layout with fixed cpu count
    pub parallelism: Option<(usize, usize)>,
    pub cpus: usize,
    pub init_size: usize,
}

impl Default for SolveCfg {
    fn default() -> Self {
        Self {
            population: PopKind::Default,
            hyper: HyperKind::Dynamic,
            generations: 3,
            seed: 0,
            plan: Some(PlanPolicy::Sequential),
            parallelism: None,
            cpus: 2,
            init_size: 2,
        }
    }
}

impl SolveCfg {
    pub fn to_json(&self) -> Value {
        serde_json::json!({
            "population": format!("{:?}", self.population), "hyper": self.hyper.name(), "generations": self.generations,
            "seed": self.seed, "plan": self.plan.map(|p| p.name()), "parallelism": self.parallelism, "cpus": self.cpus, "init_size": self.init_size,
        })
    }
    pub fn from_json(v: &Value) -> SolveCfg {
        let s = |k: &str| v.get(k).and_then(|x| x.as_str()).unwrap_or("").to_string();
        SolveCfg {
            population: match s("population").as_str() {
                "Greedy" => PopKind::Greedy,
                "Elitism" => PopKind::Elitism,
                "RosomaxaSmall" => PopKind::RosomaxaSmall,
                _ => PopKind::Default,
            },
            hyper: HyperKind::from_name(&s("hyper")),
            generations: v.get("generations").and_then(|x| x.as_u64()).unwrap_or(3) as usize,
            seed: v.get("seed").and_then(|x| x.as_u64()).unwrap_or(0),
            plan: PlanPolicy::all().into_iter().find(|p| Some(p.name()) == v.get("plan").and_then(|x| x.as_str())),
            parallelism: v.get("parallelism").and_then(|x| x.as_array()).and_then(|a| Some((a.first()?.as_u64()? as usize, a.get(1)?.as_u64()? as usize))),
            cpus: v.get("cpus").and_then(|x| x.as_u64()).unwrap_or(2) as usize,
            init_size: v.get("init_size").and_then(|x| x.as_u64()).unwrap_or(2) as usize,
        }
    }
}

pub struct Solved {
    pub core: Arc<CoreProblem>,
    pub solution: CoreSolution,
    pub json: Value,
}

pub fn read_problem(problem: &PProblem) -> Result<Arc<CoreProblem>, String> {
    let p = problem.problem_json().to_string();
    let m: Vec<String> = problem.matrices_json().iter().map(|m| m.to_string()).collect();
    match catch(|| (p, m).read_pragmatic()) {
        Ok(Ok(core)) => Ok(Arc::new(core)),
        Ok(Err(e)) => Err(format!("rejected: {e}")),
        Err(p) => Err(format!("panic: {p}")),
    }
}

pub fn environment(cfg: &SolveCfg, quota: Option<Arc<dyn Quota>>) -> Arc<Environment> {
    let parallelism = match cfg.parallelism {
        Some((p, t)) => Parallelism::new(p, t),
        None => Parallelism::new_with_cpus(cfg.cpus),
    };
    let experimental = false;
    Arc::new(Environment::new(Arc::new(DefaultRandom::new_repeatable()), quota, parallelism, Arc::new(|_| {}), experimental))
}

pub fn write_solution(core: &CoreProblem, solution: &CoreSolution) -> Result<Value, String> {
    let mut writer = BufWriter::new(Vec::new());
    write_pragmatic(core, solution, PragmaticOutputType::OnlyPragmatic, &mut writer).map_err(|e| e.to_string())?;
    let bytes = writer.into_inner().map_err(|e| e.to_string())?;
    serde_json::from_slice(&bytes).map_err(|e| e.to_string())
}

/// Builds the evolution config: population / hyper-heuristic / termination as requested.
pub fn build_config(
    core: Arc<CoreProblem>,
    cfg: &SolveCfg,
    environment: Arc<Environment>,
    init_solutions: Vec<vrp_core::construction::heuristics::InsertionContext>,
) -> Result<rosomaxa::evolution::EvolutionConfig<RefinementContext, vrp_core::models::GoalContext, vrp_core::construction::heuristics::InsertionContext>, String> {
    let heuristic: TargetHeuristic = match cfg.hyper {
        HyperKind::Dynamic => Box::new(get_dynamic_heuristic(core.clone(), environment.clone())),
        HyperKind::Static => Box::new(get_static_heuristic(core.clone(), environment.clone())),
        single => {
            use vrp_core::solver::search::*;
            let random = environment.random.clone();
            let default_op = create_default_heuristic_operator(core.clone(), environment.clone());
            let cheapest: Arc<dyn Recreate> = Arc::new(RecreateWithCheapest::new(random.clone()));
            let op: TargetSearchOperator = match single {
                HyperKind::Decompose => Arc::new(DecomposeSearch::new(default_op, (2, 4), 2, 200)),
                HyperKind::Infeasible => Arc::new(InfeasibleSearch::new(default_op, cheapest, 2, (0.05, 0.2), (0.33, 0.75))),
                HyperKind::Redistribute => Arc::new(RedistributeSearch::new(cheapest)),
                _ => Arc::new(LKHSearch::new(LKHSearchMode::Diverse)),
            };
            Box::new(get_static_heuristic_from_heuristic_group(core.clone(), environment.clone(), vec![(op, create_scalar_operator_probability(1., random))]))
        }
    };
    let heuristic: TargetHeuristic = match GENERATION_COUNTER.with(|c| c.borrow().clone()) {
        Some(counter) => Box::new(CountGenerations { inner: heuristic, counter }),
        None => heuristic,
    };
    let heuristic: TargetHeuristic =
        if std::env::var("VERIF_TRACE_CONSERVATION").is_ok() { Box::new(TraceConservation { inner: heuristic, total: core.jobs.size() }) } else { heuristic };
    let builder = match cfg.population {
        PopKind::Default => VrpConfigBuilder::new(core.clone())
            .set_environment(environment.clone())
            .set_telemetry_mode(TelemetryMode::None)
            .set_heuristic(heuristic)
            .prebuild()
            .map_err(|e| e.to_string())?,
        kind => {
            let population: TargetPopulation = match kind {
                PopKind::Greedy => Box::new(Greedy::new(core.goal.clone(), 1, None)),
                PopKind::Elitism => Box::new(create_elitism_population(core.goal.clone(), environment.clone())),
                _ => {
                    let mut config = RosomaxaConfig::new_with_defaults(2);
                    config.initial_size = 4;
                    config.rebalance_memory = 4;
                    Box::new(
                        Rosomaxa::new(Footprint::new(core.as_ref()), core.goal.clone(), environment.clone(), config).map_err(|e| e.to_string())?,
                    )
                }
            };
            ProblemConfigBuilder::default()
                .with_heuristic(heuristic)
                .with_context(RefinementContext::new(core.clone(), population, TelemetryMode::None, environment.clone()))
                .with_processing(create_default_processing())
                .with_initial(4, 0.05, create_default_init_operators(core.clone(), environment.clone()))
        }
    };
    let max_time = MAX_TIME.with(|c| *c.borrow());
    let builder = builder.with_max_generations(if cfg.generations == usize::MAX { None } else { Some(cfg.generations) }).with_max_time(max_time).with_initial(cfg.init_size, 0.05, create_default_init_operators(core.clone(), environment.clone()));
    let builder = if init_solutions.is_empty() { builder } else { builder.with_init_solutions(init_solutions, None) };
    builder.build().map_err(|e| e.to_string())
}

/// Solves with the given configuration; every source of nondeterminism is pinned (seed, plan, cpu count).
pub fn solve(problem: &PProblem, cfg: &SolveCfg, quota: Option<Arc<dyn Quota>>, init_solution: Option<&Value>) -> Result<Solved, String> {
    let core = read_problem(problem)?;
    solve_core(core, cfg, quota, init_solution)
}

pub fn solve_core(core: Arc<CoreProblem>, cfg: &SolveCfg, quota: Option<Arc<dyn Quota>>, init_solution: Option<&Value>) -> Result<Solved, String> {
    reseed(cfg.seed);
    if let Some(plan) = cfg.plan {
        install_policy(plan);
    }
    let result = catch(|| -> Result<Solved, String> {
        let environment = environment(cfg, quota);
        let mut init = vec![];
        if let Some(sol) = init_solution {
            let text = sol.to_string();
            let solution = read_init_solution(BufReader::new(text.as_bytes()), core.clone(), environment.random.clone()).map_err(|e| format!("cannot read init solution: {e}"))?;
            init.push(vrp_core::construction::heuristics::InsertionContext::new_from_solution(core.clone(), (solution, None), environment.clone()));
        }
        let config = build_config(core.clone(), cfg, environment, init)?;
        let solution = Solver::new(core.clone(), config).solve().map_err(|e| format!("solve error: {e}"))?;
        let json = write_solution(core.as_ref(), &solution)?;
        Ok(Solved { core: core.clone(), solution, json })
    });
    uninstall_plan();
    match result {
        Ok(r) => r,
        Err(p) => Err(format!("panic: {p}")),
    }
}


/// Solves through the CLI's JSON solver configuration (`vrp_cli::extensions::solve::config`): the configuration creates its
/// own environment (non-repeatable random, default pools); the run is pinned by reseeding both thread-local generators and
/// by executing every parallel wrapper on the calling thread (hooks H1, H2, H2b).
pub fn solve_cli_config(problem: &PProblem, config: &Value, seed: u64) -> Result<Solved, String> {
    use vrp_cli::extensions::solve::config::{Config, create_builder_from_config};
    // every scenario starts from the same generator states, whatever ran before it in the process
    reseed(seed ^ 0xc11);
    let core = read_problem(problem)?;
    reseed(seed);
    install_policy(PlanPolicy::Sequential);
    // the configured heuristics measure operator durations (dynamic selection, time based estimates): virtual time, 1 us per read
    rosomaxa::utils::verif_clock::enable(1);
    let result = catch(|| -> Result<Solved, String> {
        let cfg: Config = serde_json::from_value(config.clone()).map_err(|e| format!("solver config not read: {e}"))?;
        let builder = create_builder_from_config(core.clone(), vec![], &cfg).map_err(|e| format!("solver config rejected: {e}"))?;
        let config = builder.build().map_err(|e| format!("solver config rejected: {e}"))?;
        let solution = Solver::new(core.clone(), config).solve().map_err(|e| format!("solve error: {e}"))?;
        let json = write_solution(core.as_ref(), &solution)?;
        Ok(Solved { core: core.clone(), solution, json })
    });
    rosomaxa::utils::verif_clock::disable();
    uninstall_plan();
    match result {
        Ok(r) => r,
        Err(p) => Err(format!("panic: {p}")),
    }
}

/// The alphabet of CLI solver configurations: every ruin method x every recreate method as the only operator, every local
/// search operator, decomposition, context dependent probabilities, the dynamic hyper-heuristic; populations rotate.
pub fn cli_configs(generations: usize) -> Vec<(String, Value)> {
    use serde_json::json;
    let populations = [
        json!({"type": "greedy", "selectionSize": 2}),
        json!({"type": "elitism", "maxSize": 2, "selectionSize": 2}),
        json!({"type": "rosomaxa", "selectionSize": 2, "maxEliteSize": 2, "maxNodeSize": 2, "spreadFactor": 0.5, "distributionFactor": 0.5, "rebalanceMemory": 10, "explorationRatio": 0.5}),
    ];
    let ruins = vec![
        json!({"type": "adjusted-string", "probability": 1.0, "lmax": 4, "cavg": 2, "alpha": 0.01}),
        json!({"type": "neighbour", "probability": 1.0, "min": 1, "max": 3}),
        json!({"type": "random-job", "probability": 1.0, "min": 1, "max": 3}),
        json!({"type": "random-route", "probability": 1.0, "min": 1, "max": 2}),
        json!({"type": "close-route", "probability": 1.0}),
        json!({"type": "worst-route", "probability": 1.0}),
        json!({"type": "worst-job", "probability": 1.0, "min": 1, "max": 3, "skip": 2}),
        json!({"type": "cluster", "probability": 1.0, "min": 1, "max": 3}),
    ];
    let recreates = vec![
        json!({"type": "cheapest", "weight": 1}),
        json!({"type": "skip-best", "weight": 1, "start": 1, "end": 2}),
        json!({"type": "blinks", "weight": 1}),
        json!({"type": "gaps", "weight": 1, "min": 1, "max": 3}),
        json!({"type": "nearest", "weight": 1}),
        json!({"type": "skip-random", "weight": 1}),
        json!({"type": "slice", "weight": 1}),
        json!({"type": "farthest", "weight": 1}),
        json!({"type": "perturbation", "weight": 1, "probability": 0.5, "min": -0.2, "max": 0.2}),
        json!({"type": "regret", "weight": 1, "start": 2, "end": 3}),
    ];
    let noise = json!({"probability": 0.5, "min": -0.1, "max": 0.1});
    let locals = vec![
        json!({"type": "swap-star", "weight": 1}),
        json!({"type": "inter-route-best", "weight": 1, "noise": noise}),
        json!({"type": "inter-route-random", "weight": 1, "noise": noise}),
        json!({"type": "intra-route-random", "weight": 1, "noise": noise}),
        json!({"type": "sequence", "weight": 1}),
    ];
    let scalar = json!({"scalar": 1.0});
    let mut hypers: Vec<(String, Value)> = vec![("dynamic".into(), json!({"type": "dynamic-selective"}))];
    for r in &ruins {
        for c in &recreates {
            hypers.push((
                format!("rr:{}+{}", r["type"].as_str().unwrap_or(""), c["type"].as_str().unwrap_or("")),
                json!({"type": "static-selective", "operators": [{"type": "ruin-recreate", "probability": scalar, "ruins": [{"weight": 1, "methods": [r]}], "recreates": [c]}]}),
            ));
        }
    }
    for l in &locals {
        hypers.push((
            format!("local:{}", l["type"].as_str().unwrap_or("")),
            json!({"type": "static-selective", "operators": [{"type": "local-search", "probability": scalar, "times": {"min": 1, "max": 2}, "operators": [l]}]}),
        ));
    }
    hypers.push(("decomposition".into(), json!({"type": "static-selective", "operators": [{"type": "decomposition", "routes": {"min": 2, "max": 4}, "repeat": 2, "probability": scalar}]})));
    hypers.push((
        "context-probability".into(),
        json!({"type": "static-selective", "operators": [
            {"type": "ruin-recreate",
             "probability": {"threshold": {"jobs": 1, "routes": 1}, "phases": [{"type": "initial", "chance": 1.0}, {"type": "exploration", "chance": 1.0}, {"type": "exploitation", "chance": 1.0}]},
             "ruins": [{"weight": 1, "methods": [ruins[0], ruins[2]]}, {"weight": 1, "methods": [ruins[4]]}], "recreates": [recreates[0], recreates[9]]},
            {"type": "local-search", "probability": {"scalar": 0.5}, "times": {"min": 1, "max": 2}, "operators": [locals[1], locals[4]]}]}),
    ));
    hypers.push(("static-default".into(), json!({"type": "static-selective"})));
    hypers
        .into_iter()
        .enumerate()
        .map(|(i, (name, hyper))| {
            (
                name,
                json!({
                    "evolution": {
                        "initial": {"method": recreates[i % recreates.len()], "alternatives": {"methods": [recreates[(i + 3) % recreates.len()], recreates[(i + 7) % recreates.len()]], "maxSize": 2, "quota": 0.05}},
                        "population": populations[i % populations.len()],
                    },
                    "hyper": hyper,
                    "termination": {"maxGenerations": generations},
                    // NOTE: no `parallelism` section: it creates real thread pools eagerly (their threads disturb the allocation
                    // order and with it everything which hashes by address); the wrappers run on the calling thread anyway (H1)
                    "environment": {"logging": {"enabled": false}},
                }),
            )
        })
        .collect()
}

/// Debug aid: wraps the hyper-heuristic and reports the first offspring which does not account for every job.
struct TraceConservation {
    inner: TargetHeuristic,
    total: usize,
}

impl TraceConservation {
    fn check(&self, ctx: &RefinementContext, what: &str, solutions: &[vrp_core::construction::heuristics::InsertionContext]) {
        use rosomaxa::HeuristicContext;
        for s in solutions {
            let in_routes: usize = s.solution.routes.iter().map(|r| r.route().tour.job_count()).sum();
            let accounted = in_routes + s.solution.unassigned.len() + s.solution.required.len() + s.solution.ignored.len();
            // conditional jobs (breaks/reloads) are part of problem.jobs as well, so `total` counts them too
            if accounted != self.total {
                use vrp_core::models::problem::JobIdDimension;
                let ids = |jobs: Vec<&vrp_core::models::problem::Job>| jobs.iter().map(|j| j.dimens().get_job_id().cloned().unwrap_or_default()).collect::<Vec<_>>();
                eprintln!(
                    "TRACE detail: routes {:?} unassigned {:?}",
                    s.solution.routes.iter().map(|r| ids(r.route().tour.jobs().collect())).collect::<Vec<_>>(),
                    ids(s.solution.unassigned.keys().collect())
                );
                eprintln!(
                    "TRACE generation {} {what}: {} jobs accounted of {} (routes {in_routes}, unassigned {}, required {}, ignored {})\n{}",
                    ctx.statistics().generation,
                    accounted,
                    self.total,
                    s.solution.unassigned.len(),
                    s.solution.required.len(),
                    s.solution.ignored.len(),
                    self.inner_display_tail()
                );
            }
        }
    }
    fn inner_display_tail(&self) -> String {
        let text = format!("{}", self.inner);
        let lines: Vec<&str> = text.lines().filter(|l| l.split(',').count() == 6).collect();
        lines.iter().rev().take(6).rev().cloned().collect::<Vec<_>>().join("\n")
    }
}

impl rosomaxa::hyper::HyperHeuristic for TraceConservation {
    type Context = RefinementContext;
    type Objective = vrp_core::models::GoalContext;
    type Solution = vrp_core::construction::heuristics::InsertionContext;

    fn search(&mut self, ctx: &Self::Context, solution: &Self::Solution) -> Vec<Self::Solution> {
        let r = self.inner.search(ctx, solution);
        self.check(ctx, "search", &r);
        r
    }
    fn search_many(&mut self, ctx: &Self::Context, solutions: Vec<&Self::Solution>) -> Vec<Self::Solution> {
        self.check(ctx, "parents", &solutions.iter().map(|s| rosomaxa::HeuristicSolution::deep_copy(*s)).collect::<Vec<_>>());
        let r = self.inner.search_many(ctx, solutions);
        self.check(ctx, "search_many", &r);
        r
    }
    fn diversify(&self, ctx: &Self::Context, solution: &Self::Solution) -> Vec<Self::Solution> {
        let r = self.inner.diversify(ctx, solution);
        self.check(ctx, "diversify", &r);
        r
    }
    fn diversify_many(&self, ctx: &Self::Context, solutions: Vec<&Self::Solution>) -> Vec<Self::Solution> {
        let r = self.inner.diversify_many(ctx, solutions);
        self.check(ctx, "diversify_many", &r);
        r
    }
}

impl std::fmt::Display for TraceConservation {
    fn fmt(&self, f: &mut std::fmt::Formatter<'_>) -> std::fmt::Result {
        write!(f, "{}", self.inner)
    }
}


thread_local! {
    /// When set, the hyper-heuristic is wrapped and every evolution round (search call) is counted.
    pub static GENERATION_COUNTER: std::cell::RefCell<Option<Arc<std::sync::atomic::AtomicU64>>> = const { std::cell::RefCell::new(None) };
    /// Optional max-time (seconds) passed to the configuration builder.
    pub static MAX_TIME: std::cell::RefCell<Option<usize>> = const { std::cell::RefCell::new(None) };
}

struct CountGenerations {
    inner: TargetHeuristic,
    counter: Arc<std::sync::atomic::AtomicU64>,
}

impl rosomaxa::hyper::HyperHeuristic for CountGenerations {
    type Context = RefinementContext;
    type Objective = vrp_core::models::GoalContext;
    type Solution = vrp_core::construction::heuristics::InsertionContext;

    fn search(&mut self, ctx: &Self::Context, solution: &Self::Solution) -> Vec<Self::Solution> {
        self.counter.fetch_add(1, std::sync::atomic::Ordering::SeqCst);
        self.inner.search(ctx, solution)
    }
    fn search_many(&mut self, ctx: &Self::Context, solutions: Vec<&Self::Solution>) -> Vec<Self::Solution> {
        self.counter.fetch_add(1, std::sync::atomic::Ordering::SeqCst);
        self.inner.search_many(ctx, solutions)
    }
    fn diversify(&self, ctx: &Self::Context, solution: &Self::Solution) -> Vec<Self::Solution> {
        self.inner.diversify(ctx, solution)
    }
    fn diversify_many(&self, ctx: &Self::Context, solutions: Vec<&Self::Solution>) -> Vec<Self::Solution> {
        self.inner.diversify_many(ctx, solutions)
    }
}

impl std::fmt::Display for CountGenerations {
    fn fmt(&self, f: &mut std::fmt::Formatter<'_>) -> std::fmt::Result {
        write!(f, "{}", self.inner)
    }
}
