//! Small-problem families (DESIGN 4.1): explicit generators over finite alphabets, enumerated exhaustively.

use super::model::*;
use crate::Tier;
use serde_json::json;

fn place(loc: usize, duration: f64, times: &[(f64, f64)], tag: Option<&str>) -> PPlace {
    PPlace { loc, duration, times: times.to_vec(), tag: tag.map(|s| s.to_string()) }
}

fn task(kind: TaskKind, places: Vec<PPlace>, demand: &[i64]) -> PTask {
    PTask { kind, places, demand: demand.to_vec(), order: None }
}

fn job(id: &str, tasks: Vec<PTask>) -> PJob {
    PJob { id: id.to_string(), tasks, skills: None, group: None, compatibility: None, value: None }
}

/// Eleven single-task templates (F-core).
pub fn core_templates() -> Vec<PJob> {
    use TaskKind::*;
    vec![
        job("d_near", vec![task(Delivery, vec![place(1, 3., &[], None)], &[1])]),
        job("d_early", vec![task(Delivery, vec![place(2, 2., &[(0., 40.)], None)], &[1])]),
        job("d_late", vec![task(Delivery, vec![place(3, 5., &[(120., 200.)], None)], &[1])]),
        job("d_two", vec![task(Delivery, vec![place(2, 0., &[(0., 20.), (90., 130.)], None)], &[1])]),
        job("d_big", vec![task(Delivery, vec![place(4, 4., &[], None)], &[2])]),
        job("p_near", vec![task(Pickup, vec![place(1, 1., &[], None)], &[1])]),
        job("p_tight", vec![task(Pickup, vec![place(3, 2., &[(49., 55.)], None)], &[1])]),
        job("p_big", vec![task(Pickup, vec![place(2, 3., &[(10., 150.)], None)], &[2])]),
        job("s_any", vec![task(Service, vec![place(4, 6., &[], None)], &[])]),
        job("s_late", vec![task(Service, vec![place(1, 2., &[(100., 110.)], None)], &[])]),
        // two places at one location whose windows overlap: only the second can be reached in time
        job("d_tags", vec![task(Delivery, vec![place(4, 2., &[(0., 60.)], Some("a")), place(4, 2., &[(50., 300.)], Some("b"))], &[1])]),
    ]
}

#[derive(Clone, Copy, Debug)]
pub enum ShiftKind {
    Closed,
    Open,
    TightEnd,
    StartLatest,
}

pub fn shift(kind: ShiftKind) -> PShift {
    match kind {
        ShiftKind::Closed => PShift { start_loc: 0, start_earliest: 0., start_latest: None, end: Some((0, 1000.)), breaks: vec![], reloads: vec![], required_breaks: vec![], required_offset: false, recharge: None },
        ShiftKind::Open => PShift { start_loc: 0, start_earliest: 0., start_latest: None, end: None, breaks: vec![], reloads: vec![], required_breaks: vec![], required_offset: false, recharge: None },
        ShiftKind::TightEnd => PShift { start_loc: 0, start_earliest: 0., start_latest: None, end: Some((0, 160.)), breaks: vec![], reloads: vec![], required_breaks: vec![], required_offset: false, recharge: None },
        ShiftKind::StartLatest => PShift { start_loc: 0, start_earliest: 0., start_latest: Some(0.), end: Some((0, 1000.)), breaks: vec![], reloads: vec![], required_breaks: vec![], required_offset: false, recharge: None },
    }
}

pub fn vehicle_type(type_id: &str, ids: usize, capacity: &[i64], shifts: Vec<PShift>) -> PVehicleType {
    PVehicleType {
        type_id: type_id.to_string(),
        vehicle_ids: (1..=ids).map(|i| format!("{type_id}_{i}")).collect(),
        profile: "car".to_string(),
        scale: None,
        fixed: 20.,
        cost_distance: 1.,
        cost_time: 0.5,
        shifts,
        capacity: capacity.to_vec(),
        skills: vec![],
        limits: None,
    }
}

fn base(name: String, jobs: Vec<PJob>, vehicles: Vec<PVehicleType>) -> PProblem {
    PProblem { name, jobs, vehicles, matrices: vec![standard_matrix("car", 5)], relations: vec![], objectives: None, clustering: None, resources: vec![] }
}

fn multisets(n: usize, k: usize) -> Vec<Vec<usize>> {
    fn rec(n: usize, k: usize, start: usize, cur: &mut Vec<usize>, out: &mut Vec<Vec<usize>>) {
        if cur.len() == k {
            out.push(cur.clone());
            return;
        }
        for i in start..n {
            cur.push(i);
            rec(n, k, i, cur, out);
            cur.pop();
        }
    }
    let mut out = vec![];
    rec(n, k, 0, &mut vec![], &mut out);
    out
}

fn instantiate(templates: &[PJob], picks: &[usize]) -> Vec<PJob> {
    picks
        .iter()
        .enumerate()
        .map(|(i, t)| {
            let mut j = templates[*t].clone();
            j.id = format!("{}#{i}", j.id);
            j
        })
        .collect()
}

pub fn objectives(idx: usize) -> Option<serde_json::Value> {
    match idx {
        0 => None,
        1 => Some(json!([{"type": "minimize-unassigned"}, {"type": "minimize-tours"}, {"type": "minimize-distance"}])),
        _ => Some(json!([{"type": "minimize-unassigned"}, {"type": "minimize-duration"}])),
    }
}

/// F-core: multisets of jobs x fleet x capacity x shift x objectives.
pub fn family_core(tier: Tier) -> Vec<PProblem> {
    let templates = core_templates();
    let mut out = vec![];
    let max_jobs = tier.pick(3, 4);
    let shifts = [ShiftKind::Closed, ShiftKind::Open, ShiftKind::TightEnd, ShiftKind::StartLatest];
    for k in 1..=max_jobs {
        for picks in multisets(templates.len(), k) {
            for fleet in 0..tier.pick(2, 3) {
                for cap in tier.pick(vec![2], vec![2, 3]) {
                    for (si, sk) in shifts.iter().enumerate() {
                        for obj in 0..tier.pick(1, 3) {
                            // quick tier: thin the 3-job layer (every third combination of the secondary axes)
                            if tier.is_quick() && k == 3 && (picks.iter().sum::<usize>() + fleet + si) % 3 != 0 {
                                continue;
                            }
                            let vehicles = match fleet {
                                0 => vec![vehicle_type("v", 1, &[cap], vec![shift(*sk)])],
                                1 => vec![vehicle_type("a", 1, &[cap], vec![shift(*sk)]), {
                                    let mut b = vehicle_type("b", 1, &[cap + 1], vec![shift(ShiftKind::Closed)]);
                                    b.fixed = 35.;
                                    b.cost_distance = 2.;
                                    b
                                }],
                                _ => vec![vehicle_type("v", 2, &[cap], vec![shift(*sk)])],
                            };
                            let mut p = base(format!("core/k{k}/{picks:?}/f{fleet}/c{cap}/s{si}/o{obj}"), instantiate(&templates, &picks), vehicles);
                            p.objectives = objectives(obj);
                            out.push(p);
                        }
                    }
                }
            }
        }
    }
    out
}

/// F-pd: pickup-and-delivery multi-jobs mixed with static jobs; capacity tight.
pub fn family_pd(tier: Tier) -> Vec<PProblem> {
    use TaskKind::*;
    let multi = vec![
        job("m11", vec![task(Pickup, vec![place(1, 1., &[], Some("p"))], &[1]), task(Delivery, vec![place(3, 1., &[], Some("d"))], &[1])]),
        job("m21", vec![
            task(Pickup, vec![place(2, 1., &[], Some("p1"))], &[1]),
            task(Pickup, vec![place(4, 1., &[(0., 300.)], Some("p2"))], &[1]),
            task(Delivery, vec![place(1, 2., &[], Some("d"))], &[2]),
        ]),
        job("m12", vec![
            task(Pickup, vec![place(3, 1., &[], Some("p"))], &[2]),
            task(Delivery, vec![place(1, 1., &[(0., 400.)], Some("d1"))], &[1]),
            task(Delivery, vec![place(2, 1., &[], Some("d2"))], &[1]),
        ]),
        job("m_tw", vec![task(Pickup, vec![place(4, 2., &[(60., 100.)], Some("p"))], &[1]), task(Delivery, vec![place(2, 2., &[(100., 220.)], Some("d"))], &[1])]),
        // pickup + delivery mixed with a service / a replacement task; the delivery place is the closest to the depot
        job("m_ps", vec![task(Pickup, vec![place(3, 1., &[], Some("p"))], &[1]), task(Delivery, vec![place(1, 1., &[], Some("d"))], &[1]), task(Service, vec![place(2, 1., &[], Some("s"))], &[])]),
        job("m_pr", vec![task(Pickup, vec![place(4, 1., &[], Some("p"))], &[1]), task(Delivery, vec![place(1, 1., &[], Some("d"))], &[1]), task(Replacement, vec![place(2, 1., &[], Some("r"))], &[1])]),
    ];
    let statics = core_templates();
    let mut out = vec![];
    for mi in 0..multi.len() {
        for mj in mi..multi.len() {
            for st in multisets(statics.len(), tier.pick(1, 2)) {
                if tier.is_quick() && (mi + mj + st.iter().sum::<usize>()) % 2 != 0 {
                    continue;
                }
                for cap in [2i64, 3] {
                    for sk in [ShiftKind::Closed, ShiftKind::Open] {
                        let mut jobs = vec![multi[mi].clone()];
                        if mj != mi {
                            jobs.push(multi[mj].clone());
                        }
                        jobs.extend(instantiate(&statics, &st));
                        out.push(base(format!("pd/{mi}-{mj}/{st:?}/c{cap}/{sk:?}"), jobs, vec![vehicle_type("v", 2, &[cap], vec![shift(sk)])]));
                    }
                }
            }
        }
    }
    out
}

/// F-multidim: 2- and 3-dimensional demand where exactly one dimension binds.
pub fn family_multidim(_tier: Tier) -> Vec<PProblem> {
    use TaskKind::*;
    let mut out = vec![];
    let demands: Vec<Vec<i64>> = vec![vec![1, 0], vec![0, 1], vec![1, 1], vec![2, 0], vec![0, 2], vec![1, 0, 1], vec![0, 0, 2]];
    let caps: Vec<Vec<i64>> = vec![vec![2, 1], vec![1, 2], vec![2, 2], vec![1, 5, 1], vec![3, 0, 2]];
    for cap in &caps {
        for a in 0..demands.len() {
            for b in a..demands.len() {
                for c in b..demands.len() {
                    let ds = [&demands[a], &demands[b], &demands[c]];
                    if ds.iter().any(|d| d.len() > cap.len()) {
                        continue;
                    }
                    let jobs: Vec<PJob> = ds
                        .iter()
                        .enumerate()
                        .map(|(i, d)| {
                            let kind = if i == 1 { Pickup } else { Delivery };
                            job(&format!("j{i}"), vec![task(kind, vec![place(1 + i, 1., &[], None)], d)])
                        })
                        .collect();
                    out.push(base(format!("multidim/{cap:?}/{a}{b}{c}"), jobs, vec![vehicle_type("v", 2, cap, vec![shift(ShiftKind::Closed)])]));
                }
            }
        }
    }
    out
}

/// F-attr: skills, groups, compatibility, hard task order, value.
pub fn family_attr(_tier: Tier) -> Vec<PProblem> {
    use TaskKind::*;
    let mut out = vec![];
    let skills: Vec<Option<PSkills>> = vec![
        None,
        Some(PSkills { all_of: vec!["fridge".into()], ..Default::default() }),
        Some(PSkills { one_of: vec!["fridge".into(), "crane".into()], ..Default::default() }),
        Some(PSkills { none_of: vec!["crane".into()], ..Default::default() }),
        Some(PSkills { all_of: vec!["fridge".into(), "crane".into()], ..Default::default() }),
    ];
    let fleets: Vec<Vec<Vec<String>>> = vec![
        vec![vec![]],
        vec![vec!["fridge".into()], vec!["crane".into()]],
        vec![vec!["fridge".into(), "crane".into()], vec![]],
    ];
    for (fi, fleet) in fleets.iter().enumerate() {
        for s1 in 0..skills.len() {
            for s2 in s1..skills.len() {
                let mk = |i: usize, s: usize| {
                    let mut j = job(&format!("j{i}"), vec![task(Delivery, vec![place(1 + i, 2., &[], None)], &[1])]);
                    j.skills = skills[s].clone();
                    j
                };
                let jobs = vec![mk(0, s1), mk(1, s2), mk(2, 0)];
                let vehicles: Vec<PVehicleType> = fleet
                    .iter()
                    .enumerate()
                    .map(|(vi, sk)| {
                        let mut v = vehicle_type(&format!("t{vi}"), 1, &[2], vec![shift(ShiftKind::Closed)]);
                        v.skills = sk.clone();
                        v
                    })
                    .collect();
                out.push(base(format!("attr/skills/f{fi}/{s1}{s2}"), jobs, vehicles));
            }
        }
    }
    // groups and compatibility: three jobs, two vehicles with capacity 2
    for variant in 0..6 {
        let mut jobs: Vec<PJob> = (0..4).map(|i| job(&format!("j{i}"), vec![task(Delivery, vec![place(1 + i % 4, 1., &[], None)], &[1])])).collect();
        match variant {
            0 => {
                jobs[0].group = Some("g1".into());
                jobs[1].group = Some("g1".into());
                jobs[2].group = Some("g1".into());
            }
            1 => {
                jobs[0].group = Some("g1".into());
                jobs[3].group = Some("g1".into());
                jobs[1].group = Some("g2".into());
                jobs[2].group = Some("g2".into());
            }
            2 => {
                jobs[0].compatibility = Some("food".into());
                jobs[1].compatibility = Some("chem".into());
            }
            3 => {
                jobs[0].compatibility = Some("food".into());
                jobs[1].compatibility = Some("chem".into());
                jobs[2].compatibility = Some("food".into());
                jobs[3].compatibility = Some("chem".into());
            }
            4 => {
                for (i, j) in jobs.iter_mut().enumerate() {
                    j.tasks[0].order = Some(4 - i as i64);
                }
            }
            _ => {
                jobs[1].tasks[0].order = Some(1);
                jobs[3].tasks[0].order = Some(2);
                jobs[0].value = Some(10.);
            }
        }
        for cap in [2i64, 4] {
            let mut p = base(format!("attr/v{variant}/c{cap}"), jobs.clone(), vec![vehicle_type("v", 2, &[cap], vec![shift(ShiftKind::Closed)])]);
            if variant >= 4 {
                // hard order: the tour-order *constraint* is switched on by listing the objective with `isConstrained`
                p.objectives = Some(if variant == 4 {
                    json!([{"type": "minimize-unassigned"}, {"type": "minimize-tours"}, {"type": "minimize-cost"}])
                } else {
                    json!([{"type": "maximize-value"}, {"type": "minimize-unassigned"}, {"type": "minimize-tours"}, {"type": "minimize-cost"}])
                });
            }
            out.push(p);
        }
    }
    out
}

/// F-limits: maxDistance / maxDuration / tourSize at "exactly reachable" and "one unit short".
pub fn family_limits(_tier: Tier) -> Vec<PProblem> {
    use TaskKind::*;
    let mut out = vec![];
    // a single delivery at location k: round trip distance/duration known from the matrix
    let m = standard_matrix("car", 5);
    for loc in 1..5usize {
        let dist = m.dist(0, loc) + m.dist(loc, 0);
        let duration = m.dur(0, loc) + 3. + m.dur(loc, 0);
        for delta in [0., -1., 1.] {
            for which in 0..3 {
                let mut v = vehicle_type("v", 2, &[5], vec![shift(ShiftKind::Closed)]);
                v.limits = Some(match which {
                    0 => PLimits { max_distance: Some(dist + delta), ..Default::default() },
                    1 => PLimits { max_duration: Some(duration + delta), ..Default::default() },
                    _ => PLimits { tour_size: Some((2. + delta) as usize), ..Default::default() },
                });
                let jobs = vec![
                    job("a", vec![task(Delivery, vec![place(loc, 3., &[], None)], &[1])]),
                    job("b", vec![task(Delivery, vec![place(loc, 0., &[], None)], &[1])]),
                    job("c", vec![task(Pickup, vec![place(1 + loc % 4, 1., &[(50., 300.)], None)], &[1])]),
                ];
                out.push(base(format!("limits/l{loc}/d{delta}/w{which}"), jobs, vec![v]));
            }
        }
    }
    // late windows + maxDuration: departure rescheduling must respect the limit
    for md in [60., 110., 150.] {
        let mut v = vehicle_type("v", 2, &[5], vec![shift(ShiftKind::Closed)]);
        v.limits = Some(PLimits { max_duration: Some(md), ..Default::default() });
        let jobs = vec![
            job("late1", vec![task(Delivery, vec![place(2, 5., &[(200., 260.)], None)], &[1])]),
            job("late2", vec![task(Delivery, vec![place(4, 5., &[(200., 300.)], None)], &[1])]),
        ];
        out.push(base(format!("limits/late/{md}"), jobs.clone(), vec![v]));
        // the same with a latest departure: leaving later to shorten the tour is not allowed
        for latest in [0., 10., 150.] {
            let mut s = shift(ShiftKind::Closed);
            s.start_latest = Some(latest);
            let mut v = vehicle_type("v", 2, &[5], vec![s]);
            v.limits = Some(PLimits { max_duration: Some(md), ..Default::default() });
            let mut jobs = jobs.clone();
            jobs.push(job("near", vec![task(Delivery, vec![place(1, 2., &[], None)], &[1])]));
            out.push(base(format!("limits/late-start-latest/{md}/{latest}"), jobs, vec![v]));
        }
    }
    // tour size counts activities, not jobs: multi-task jobs
    for size in [2usize, 3, 4] {
        for fleet in [1usize, 2] {
            let mut v = vehicle_type("v", fleet, &[5], vec![shift(ShiftKind::Closed)]);
            v.limits = Some(PLimits { tour_size: Some(size), ..Default::default() });
            let jobs = vec![
                job("pd1", vec![task(Pickup, vec![place(1, 1., &[], None)], &[1]), task(Delivery, vec![place(2, 1., &[], None)], &[1])]),
                job("pd2", vec![task(Pickup, vec![place(3, 1., &[], None)], &[1]), task(Delivery, vec![place(1, 1., &[], None)], &[1])]),
                job("s", vec![task(Service, vec![place(2, 1., &[], None)], &[])]),
                job("ppd", vec![task(Pickup, vec![place(1, 1., &[], None)], &[1]), task(Pickup, vec![place(4, 1., &[], None)], &[1]), task(Delivery, vec![place(2, 1., &[], None)], &[2])]),
            ];
            out.push(base(format!("limits/tour-size-multi/{size}/f{fleet}"), jobs, vec![v]));
        }
    }
    out
}

/// F-cond: optional breaks, reloads, two shifts per vehicle.
pub fn family_cond(_tier: Tier) -> Vec<PProblem> {
    use TaskKind::*;
    let mut out = vec![];
    let deliveries = |n: usize| -> Vec<PJob> { (0..n).map(|i| job(&format!("d{i}"), vec![task(Delivery, vec![place(1 + i % 4, 2., &[], None)], &[1])])).collect() };
    // reloads: capacity 2, 3-5 deliveries => more than one trip
    for n in 3..=5 {
        for reload_loc in [0usize, 2] {
            for with_pickup in [false, true] {
                let mut s = shift(ShiftKind::Closed);
                s.reloads = vec![
                    PReload { loc: reload_loc, duration: 4., times: vec![], tag: Some("r1".into()), resource_id: None },
                    PReload { loc: reload_loc, duration: 4., times: vec![], tag: Some("r2".into()), resource_id: None },
                ];
                let mut jobs = deliveries(n);
                if with_pickup {
                    jobs.push(job("p", vec![task(Pickup, vec![place(3, 1., &[], None)], &[2])]));
                }
                out.push(base(format!("cond/reload/n{n}/l{reload_loc}/p{with_pickup}"), jobs.clone(), vec![vehicle_type("v", 1, &[2], vec![s.clone()])]));
                // the same with reloads which carry no tag (nothing but their position tells them apart)
                if n != 4 {
                    let mut s = s;
                    for r in s.reloads.iter_mut() {
                        r.tag = None;
                    }
                    out.push(base(format!("cond/reload-untagged/n{n}/l{reload_loc}/p{with_pickup}"), jobs, vec![vehicle_type("v", 1, &[2], vec![s])]));
                }
            }
        }
    }
    // three untagged reloads, two of them equal, in every order of the list: the equal ones differ by their index only
    for (oi, order) in [[4usize, 0, 0], [0, 4, 0], [0, 0, 4]].iter().enumerate() {
        for n in [5usize, 6] {
            let mut s = shift(ShiftKind::Closed);
            s.reloads = order.iter().map(|loc| PReload { loc: *loc, duration: 4., times: vec![], tag: None, resource_id: None }).collect();
            out.push(base(format!("cond/reload-untagged3/o{oi}/n{n}"), deliveries(n), vec![vehicle_type("v", 1, &[2], vec![s])]));
        }
    }
    // shared reload resource: two vehicles draw from one stock
    for n in [5usize, 6] {
        // stock 1 and 2: fewer units than the jobs beyond the first loads need (the stock binds)
        for stock in [4i64, 6, 1, 2] {
            let mut s = shift(ShiftKind::Closed);
            s.reloads = vec![
                PReload { loc: 0, duration: 4., times: vec![], tag: Some("r1".into()), resource_id: Some("stock".into()) },
                PReload { loc: 0, duration: 4., times: vec![], tag: Some("r2".into()), resource_id: Some("stock".into()) },
            ];
            let mut p = base(format!("cond/resource/n{n}/stock{stock}"), deliveries(n), vec![vehicle_type("v", 2, &[2], vec![s])]);
            p.resources = vec![("stock".into(), vec![stock])];
            out.push(p);
        }
    }
    // shared stock x jobs of different size: exchanging a small job behind a reload by a big one draws more from the stock
    for n in [5usize, 6] {
        for stock in [1i64, 2, 3] {
            let mut s = shift(ShiftKind::Closed);
            s.reloads = vec![
                PReload { loc: 0, duration: 4., times: vec![], tag: Some("r1".into()), resource_id: Some("stock".into()) },
                PReload { loc: 0, duration: 4., times: vec![], tag: Some("r2".into()), resource_id: Some("stock".into()) },
            ];
            let mut jobs = deliveries(n);
            for (i, j) in jobs.iter_mut().enumerate() {
                j.tasks[0].demand = vec![1 + (i % 2) as i64];
            }
            let mut p = base(format!("cond/resource-sizes/n{n}/stock{stock}"), jobs, vec![vehicle_type("v", 2, &[3], vec![s])]);
            p.resources = vec![("stock".into(), vec![stock])];
            out.push(p);
        }
    }
    // shared stock x two load dimensions: what is left of the stock and what a job needs are often INCOMPARABLE vectors
    // (less in one dimension, more in the other)
    for n in [5usize, 6] {
        for stock in [[1i64, 3], [2, 3], [1, 1], [3, 1]] {
            let mut s = shift(ShiftKind::Closed);
            s.reloads = vec![
                PReload { loc: 0, duration: 4., times: vec![], tag: Some("r1".into()), resource_id: Some("stock".into()) },
                PReload { loc: 0, duration: 4., times: vec![], tag: Some("r2".into()), resource_id: Some("stock".into()) },
            ];
            let mut jobs = deliveries(n);
            for (i, j) in jobs.iter_mut().enumerate() {
                j.tasks[0].demand = vec![1, if i % 2 == 0 { 1 } else { 0 }];
            }
            let mut p = base(format!("cond/resource-multidim/n{n}/stock{}-{}", stock[0], stock[1]), jobs, vec![vehicle_type("v", 2, &[2, 2], vec![s])]);
            p.resources = vec![("stock".into(), stock.to_vec())];
            out.push(p);
        }
    }
    // reloads with and without a shared resource in one shift, in every list order, and two different resources: the stock of a
    // resource limits exactly the reloads which name it
    {
        let free = |tag: &str| PReload { loc: 0, duration: 4., times: vec![], tag: Some(tag.into()), resource_id: None };
        let bound = |tag: &str, res: &str| PReload { loc: 0, duration: 4., times: vec![], tag: Some(tag.into()), resource_id: Some(res.into()) };
        let lists: Vec<(&str, Vec<PReload>)> = vec![
            ("free-stock", vec![free("f1"), bound("s1", "stock")]),
            ("stock-free", vec![bound("s1", "stock"), free("f1")]),
            ("free-stock-free", vec![free("f1"), bound("s1", "stock"), free("f2")]),
            ("free-free-stock", vec![free("f1"), free("f2"), bound("s1", "stock")]),
            ("stock-other", vec![bound("s1", "stock"), bound("o1", "other")]),
            ("other-free-stock", vec![bound("o1", "other"), free("f1"), bound("s1", "stock")]),
        ];
        for (name, reloads) in lists {
            for ids in [1usize, 2] {
                for stock in [1i64, 2] {
                    let mut sh = shift(ShiftKind::Closed);
                    sh.reloads = reloads.clone();
                    let mut p = base(format!("cond/resource-mixed/{name}/v{ids}/stock{stock}"), deliveries(6), vec![vehicle_type("v", ids, &[2], vec![sh])]);
                    p.resources = vec![("stock".into(), vec![stock])];
                    if reloads.iter().any(|r| r.resource_id.as_deref() == Some("other")) {
                        p.resources.push(("other".into(), vec![3 - stock]));
                    }
                    out.push(p);
                }
            }
        }
    }
    // optional breaks with / without location
    for loc in [None, Some(2usize)] {
        for window in [(30., 60.), (0., 10.), (500., 600.)] {
            let mut s = shift(ShiftKind::StartLatest);
            s.breaks = vec![PBreak { time: window, duration: 7., loc, tag: Some("lunch".into()), offset: false, policy: None }];
            out.push(base(format!("cond/break/{loc:?}/{window:?}"), deliveries(3), vec![vehicle_type("v", 1, &[5], vec![s.clone()])]));
            // the same with the window written as offsets and with the other skip policy
            let mut s2 = s.clone();
            s2.breaks[0].offset = true;
            out.push(base(format!("cond/break-offset/{loc:?}/{window:?}"), deliveries(3), vec![vehicle_type("v", 1, &[5], vec![s2])]));
            let mut s3 = s;
            s3.breaks[0].policy = Some("skip-if-arrival-before-end".into());
            out.push(base(format!("cond/break-policy/{loc:?}/{window:?}"), deliveries(4), vec![vehicle_type("v", 2, &[5], vec![s3])]));
        }
    }
    // two shifts per vehicle
    for n in 2..=4 {
        let s1 = PShift { start_loc: 0, start_earliest: 0., start_latest: None, end: Some((0, 100.)), breaks: vec![], reloads: vec![], required_breaks: vec![], required_offset: false, recharge: None };
        let s2 = PShift { start_loc: 0, start_earliest: 300., start_latest: None, end: Some((0, 500.)), breaks: vec![], reloads: vec![], required_breaks: vec![], required_offset: false, recharge: None };
        let mut jobs = deliveries(n);
        jobs[0].tasks[0].places[0].times = vec![(320., 400.)];
        out.push(base(format!("cond/two-shifts/n{n}"), jobs.clone(), vec![vehicle_type("v", 1, &[2], vec![s1.clone(), s2.clone()])]));
        // a pickup-delivery job next to them: both shifts of the one vehicle drive a tour
        let mut jobs = jobs;
        jobs.push(job("pd", vec![task(Pickup, vec![place(1, 1., &[], Some("p"))], &[1]), task(Delivery, vec![place(3, 1., &[], Some("d"))], &[1])]));
        out.push(base(format!("cond/two-shifts-pd/n{n}"), jobs.clone(), vec![vehicle_type("v", 1, &[2], vec![s1.clone(), s2.clone()])]));
        // a job with two service tasks whose windows lie in different shifts: it cannot be served (one tour per job); C12 builds
        // a consistent solution which serves its parts by the two shifts from the twin problem with two separate jobs
        let mut jobs = jobs;
        jobs.pop();
        jobs.push(job("ss", vec![task(Service, vec![place(1, 2., &[(0., 90.)], Some("a"))], &[]), task(Service, vec![place(3, 2., &[(320., 450.)], Some("b"))], &[])]));
        out.push(base(format!("cond/two-shifts-split/n{n}"), jobs, vec![vehicle_type("v", 1, &[2], vec![s1, s2])]));
    }
    // two shifts, a reload / a break defined on ONE of them only, the need for it on the other one: what a shift
    // does not define may not appear in its tour
    for owner in [0usize, 1] {
        for n in [3usize, 4] {
            for what in ["reload", "break"] {
                let mut shifts = vec![
                    PShift { start_loc: 0, start_earliest: 0., start_latest: None, end: Some((0, 250.)), breaks: vec![], reloads: vec![], required_breaks: vec![], required_offset: false, recharge: None },
                    PShift { start_loc: 0, start_earliest: 300., start_latest: None, end: Some((0, 550.)), breaks: vec![], reloads: vec![], required_breaks: vec![], required_offset: false, recharge: None },
                ];
                let other = 1 - owner;
                let base_time = if other == 0 { 0. } else { 300. };
                if what == "reload" {
                    shifts[owner].reloads = vec![PReload { loc: 0, duration: 4., times: vec![], tag: Some("r1".into()), resource_id: None }];
                } else {
                    // the window of the break is relative to the departure: it would fit into either shift
                    shifts[owner].breaks = vec![PBreak { time: (20., 200.), duration: 7., loc: None, tag: Some("lunch".into()), offset: true, policy: None }];
                    // offsets demand a fixed departure (E1307)
                    shifts[owner].start_latest = Some(shifts[owner].start_earliest);
                }
                // every job can only be served during the other shift
                let mut jobs = deliveries(n);
                for j in jobs.iter_mut() {
                    j.tasks[0].places[0].times = vec![(base_time, base_time + 240.)];
                }
                out.push(base(format!("cond/two-shifts-{what}-on-one/o{owner}/n{n}"), jobs, vec![vehicle_type("v", 1, &[2], vec![shifts[0].clone(), shifts[1].clone()])]));
            }
        }
    }
    out
}

/// F-rel: relations consistent with the constraints.
pub fn family_rel(_tier: Tier) -> Vec<PProblem> {
    use TaskKind::*;
    let mut out = vec![];
    let jobs: Vec<PJob> = (0..4).map(|i| job(&format!("j{i}"), vec![task(Delivery, vec![place(1 + i, 2., &[], None)], &[1])])).collect();
    for kind in ["any", "sequence", "strict"] {
        for rel_jobs in [vec!["j0", "j1"], vec!["j2", "j0"], vec!["j3", "j1", "j0"], vec!["departure", "j2"], vec!["j1", "j3", "arrival"]] {
            if kind == "any" && rel_jobs.iter().any(|j| *j == "departure" || *j == "arrival") {
                continue;
            }
            for vehicles in [1usize, 2] {
                let mut p = base(format!("rel/{kind}/{rel_jobs:?}/v{vehicles}"), jobs.clone(), vec![vehicle_type("v", vehicles, &[4], vec![shift(ShiftKind::Closed)])]);
                p.relations = vec![PRelation { kind: kind.to_string(), jobs: rel_jobs.iter().map(|s| s.to_string()).collect(), vehicle_id: format!("v_{vehicles}"), shift_index: Some(0) }];
                out.push(p);
            }
        }
    }
    out
}

/// F-unreach: matrices with error codes.
pub fn family_unreach(_tier: Tier) -> Vec<PProblem> {
    use TaskKind::*;
    let mut out = vec![];
    let jobs: Vec<PJob> = (0..3).map(|i| job(&format!("j{i}"), vec![task(Delivery, vec![place(1 + i, 2., &[], None)], &[1])])).collect();
    for pattern in 0..4 {
        let mut m = standard_matrix("car", 5);
        let mut codes = vec![0i64; 25];
        match pattern {
            0 => {
                // location 2 cannot be reached from anywhere
                for i in 0..5 {
                    codes[i * 5 + 2] = 1;
                }
            }
            1 => codes[5 + 3] = 1, // 1 -> 3 only
            2 => {
                // location 3 cannot be left
                for j in 0..5 {
                    codes[3 * 5 + j] = 1;
                }
            }
            _ => codes[3] = 1, // depot -> 3
        }
        for i in 0..5 {
            codes[i * 5 + i] = 0;
        }
        m.error_codes = Some(codes);
        for sk in [ShiftKind::Closed, ShiftKind::Open] {
            let mut p = base(format!("unreach/{pattern}/{sk:?}"), jobs.clone(), vec![vehicle_type("v", 2, &[3], vec![shift(sk)])]);
            p.matrices = vec![m.clone()];
            out.push(p);
        }
    }
    out
}

/// F-scale: two profiles, scale 1.5 (tolerance variant of C03).
pub fn family_scale(_tier: Tier) -> Vec<PProblem> {
    use TaskKind::*;
    let mut out = vec![];
    for n in 2..=4 {
        let jobs: Vec<PJob> = (0..n).map(|i| job(&format!("j{i}"), vec![task(if i % 2 == 0 { Delivery } else { Pickup }, vec![place(1 + i % 4, 3., &[], None)], &[1])])).collect();
        let mut a = vehicle_type("car", 1, &[2], vec![shift(ShiftKind::Closed)]);
        a.scale = Some(1.5);
        let mut b = vehicle_type("truck", 1, &[2], vec![shift(ShiftKind::Open)]);
        b.profile = "truck".into();
        let mut truck = standard_matrix("truck", 5);
        truck.durations = truck.durations.iter().map(|d| d * 2).collect();
        let mut p = base(format!("scale/n{n}"), jobs, vec![a, b]);
        p.matrices.push(truck);
        out.push(p);
    }
    out
}

/// F-infeasible: nothing assignable.
pub fn family_infeasible(_tier: Tier) -> Vec<PProblem> {
    use TaskKind::*;
    let mut out = vec![];
    let big: Vec<PJob> = (0..2).map(|i| job(&format!("big{i}"), vec![task(Delivery, vec![place(1 + i, 1., &[], None)], &[9])])).collect();
    out.push(base("infeasible/capacity".into(), big, vec![vehicle_type("v", 2, &[2], vec![shift(ShiftKind::Closed)])]));
    let impossible: Vec<PJob> = (0..2).map(|i| job(&format!("tw{i}"), vec![task(Delivery, vec![place(4, 1., &[(0., 5.)], None)], &[1])])).collect();
    out.push(base("infeasible/window".into(), impossible.clone(), vec![vehicle_type("v", 1, &[2], vec![shift(ShiftKind::Closed)])]));
    out.push(base("infeasible/window-open".into(), impossible, vec![vehicle_type("v", 1, &[2], vec![shift(ShiftKind::Open)])]));
    out
}

/// F-shape: tour shape objectives together with relations (compact tour, balance).
pub fn family_shape(_tier: Tier) -> Vec<PProblem> {
    use TaskKind::*;
    let mut out = vec![];
    for n in [4usize, 6] {
        for radius in [1, 2] {
            for with_relation in [false, true] {
                let jobs: Vec<PJob> = (0..n).map(|i| job(&format!("j{i}"), vec![task(Delivery, vec![place(1 + i % 4, 1., &[], None)], &[1])])).collect();
                let mut p = base(format!("shape/compact/n{n}/r{radius}/{with_relation}"), jobs, vec![vehicle_type("v", 2, &[n as i64], vec![shift(ShiftKind::Open)])]);
                p.objectives = Some(json!([{"type": "minimize-unassigned"}, {"type": "minimize-tours"}, {"type": "compact-tour", "job_radius": radius}, {"type": "minimize-cost"}]));
                if with_relation {
                    p.relations = vec![PRelation { kind: "any".into(), jobs: vec!["j0".into(), format!("j{}", n - 1)], vehicle_id: "v_1".into(), shift_index: None }];
                }
                out.push(p);
            }
        }
    }
    // fast service: positions of multi-task jobs are cached per tour
    for n_single in [2usize, 3] {
        for fleet in [1usize, 2] {
            let mut jobs = vec![
                job("pd1", vec![task(Pickup, vec![place(2, 1., &[], Some("p"))], &[1]), task(Delivery, vec![place(4, 1., &[], Some("d"))], &[1])]),
                job("pd2", vec![task(Pickup, vec![place(3, 1., &[], Some("p"))], &[1]), task(Delivery, vec![place(1, 1., &[], Some("d"))], &[1])]),
            ];
            jobs.extend((0..n_single).map(|i| job(&format!("s{i}"), vec![task(Delivery, vec![place(1 + i, 1., &[], None)], &[1])])));
            let mut p = base(format!("shape/fast-service/n{n_single}/f{fleet}"), jobs, vec![vehicle_type("v", fleet, &[4], vec![shift(ShiftKind::Closed)])]);
            p.objectives = Some(json!([{"type": "minimize-unassigned"}, {"type": "minimize-tours"}, {"type": "fast-service"}, {"type": "minimize-cost"}]));
            out.push(p);
        }
    }
    // further objective types: arrival time, soft tour order, as many tours as possible
    for (name, objectives) in [
        ("arrival-time", json!([{"type": "minimize-unassigned"}, {"type": "minimize-arrival-time"}, {"type": "minimize-cost"}])),
        ("tour-order-soft", json!([{"type": "minimize-unassigned"}, {"type": "tour-order"}, {"type": "minimize-cost"}])),
        ("maximize-tours", json!([{"type": "minimize-unassigned"}, {"type": "maximize-tours"}, {"type": "minimize-cost"}])),
        ("unassigned-break-weight", json!([{"type": "minimize-unassigned", "breaks": 3.0}, {"type": "minimize-tours"}, {"type": "minimize-cost"}])),
    ] {
        let mut jobs: Vec<PJob> = (0..5).map(|i| job(&format!("j{i}"), vec![task(Delivery, vec![place(1 + i % 4, 1., &[], None)], &[1])])).collect();
        if name == "tour-order-soft" {
            for (i, j) in jobs.iter_mut().enumerate() {
                j.tasks[0].order = Some(5 - i as i64);
            }
        }
        let mut s = shift(ShiftKind::StartLatest);
        if name == "unassigned-break-weight" {
            s.breaks = vec![PBreak { time: (20., 60.), duration: 5., loc: None, tag: Some("lunch".into()), offset: false, policy: None }];
        }
        let mut p = base(format!("shape/{name}"), jobs, vec![vehicle_type("v", 2, &[3], vec![s])]);
        p.objectives = Some(objectives);
        out.push(p);
    }
    for obj in ["balance-max-load", "balance-activities", "balance-distance", "balance-duration"] {
        let jobs: Vec<PJob> = (0..5).map(|i| job(&format!("j{i}"), vec![task(Delivery, vec![place(1 + i % 4, 1., &[], None)], &[1])])).collect();
        let mut p = base(format!("shape/{obj}"), jobs, vec![vehicle_type("v", 2, &[4], vec![shift(ShiftKind::Closed)])]);
        p.objectives = Some(json!([{"type": "minimize-unassigned"}, {"type": "minimize-tours"}, {"type": "multi-objective", "strategy": {"name": "sum"}, "objectives": [{"type": obj}, {"type": "minimize-cost"}]}]));
        out.push(p);
    }
    out
}

/// F-line12: the shape of the repository's own tour-compactness feature test: 12 deliveries on a line around the
/// depot, two open vehicles of capacity 6, an `any` relation and the compact-tour objective. Solved with many generations.
pub fn family_line12() -> Vec<PProblem> {
    use TaskKind::*;
    let n = 13usize;
    let depot = 6usize;
    let mut out = vec![];
    for with_relation in [true, false] {
        for objective_set in 0..2 {
            let jobs: Vec<PJob> = (0..n)
                .filter(|i| *i != depot)
                .map(|i| job(&format!("job{}", i as i64 - 6), vec![task(Delivery, vec![place(i, 1., &[], None)], &[1])]))
                .collect();
            let mut v = vehicle_type("my_vehicle", 2, &[6], vec![PShift { start_loc: depot, start_earliest: 0., start_latest: None, end: None, breaks: vec![], reloads: vec![], required_breaks: vec![], required_offset: false, recharge: None }]);
            v.fixed = 10.;
            v.cost_distance = 1.;
            v.cost_time = 1.;
            let line: Vec<i64> = (0..n).flat_map(|i| (0..n).map(move |j| (i as i64 - j as i64).abs())).collect();
            let mut p = PProblem {
                name: format!("line12/rel{with_relation}/obj{objective_set}"),
                jobs,
                vehicles: vec![v],
                matrices: vec![PMatrix { profile: "car".into(), n, durations: line.clone(), distances: line, error_codes: None, timestamp: None }],
                relations: vec![],
                clustering: None,
                resources: vec![],
                objectives: Some(if objective_set == 0 {
                    json!([{"type": "minimize-unassigned"}, {"type": "minimize-tours"}, {"type": "compact-tour", "job_radius": 2}, {"type": "minimize-cost"}])
                } else {
                    json!([{"type": "minimize-unassigned"}, {"type": "minimize-tours"}, {"type": "minimize-cost"}])
                }),
            };
            if with_relation {
                p.relations = vec![PRelation { kind: "any".into(), jobs: vec!["job-4".into(), "job4".into()], vehicle_id: "my_vehicle_1".into(), shift_index: None }];
            }
            out.push(p);
        }
    }
    out
}

/// F-places: jobs at the shift start / end location (they share a stop with departure / arrival) and tasks with
/// alternative places at different locations of which a later one has to be (or is better) used.
pub fn family_places(_tier: Tier) -> Vec<PProblem> {
    use TaskKind::*;
    let templates = vec![
        job("d_depot", vec![task(Delivery, vec![place(0, 2., &[], None)], &[1])]),
        job("p_depot", vec![task(Pickup, vec![place(0, 1., &[(0., 500.)], Some("at-depot"))], &[1])]),
        job("d_end", vec![task(Delivery, vec![place(2, 3., &[], None)], &[1])]),
        // first place cannot be reached in time, the second one has to be used
        job("d_alt", vec![task(Delivery, vec![place(4, 1., &[(0., 5.)], Some("far")), place(1, 1., &[], Some("near"))], &[1])]),
        // both usable, the later one is much cheaper
        job("d_alt2", vec![task(Delivery, vec![place(4, 2., &[(0., 400.)], Some("x")), place(1, 2., &[(0., 400.)], Some("y"))], &[1])]),
        // three places, only the last is usable
        job("s_alt3", vec![task(Service, vec![place(4, 1., &[(0., 5.)], None), place(3, 1., &[(0., 5.)], None), place(2, 4., &[], None)], &[])]),
        job("d_near", vec![task(Delivery, vec![place(1, 3., &[], None)], &[1])]),
        // an untagged place listed before a tagged one, and the other way round
        job("d_mix", vec![task(Delivery, vec![place(4, 1., &[(0., 5.)], None), place(1, 1., &[], Some("second"))], &[1])]),
        job("s_mix3", vec![task(Service, vec![place(3, 1., &[(0., 5.)], Some("first")), place(2, 2., &[], None), place(4, 1., &[(0., 5.)], Some("third"))], &[])]),
        // boundaries: a tagged place reached exactly when its window closes (travel 0->1 is 11), a window of zero length
        job("d_edge", vec![task(Delivery, vec![place(1, 1., &[(0., 11.)], Some("edge"))], &[1])]),
        job("s_point", vec![task(Service, vec![place(2, 2., &[(150., 150.)], Some("point"))], &[])]),
    ];
    let shifts = [
        PShift { start_loc: 0, start_earliest: 0., start_latest: None, end: Some((0, 1000.)), breaks: vec![], reloads: vec![], required_breaks: vec![], required_offset: false, recharge: None },
        PShift { start_loc: 0, start_earliest: 0., start_latest: None, end: Some((2, 1000.)), breaks: vec![], reloads: vec![], required_breaks: vec![], required_offset: false, recharge: None },
        PShift { start_loc: 0, start_earliest: 0., start_latest: None, end: None, breaks: vec![], reloads: vec![], required_breaks: vec![], required_offset: false, recharge: None },
    ];
    let mut out = vec![];
    for k in 1..=3 {
        for picks in multisets(templates.len(), k) {
            // at most one copy of a template
            if picks.windows(2).any(|w| w[0] == w[1]) {
                continue;
            }
            for (si, s) in shifts.iter().enumerate() {
                for cap in [1i64, 3] {
                    out.push(base(format!("places/{picks:?}/s{si}/c{cap}"), instantiate(&templates, &picks), vec![vehicle_type("v", 1, &[cap], vec![s.clone()])]));
                }
            }
        }
    }
    out
}

/// F-fleet4: four vehicles, three or four tours, conditional jobs (breaks / reloads) of used and unused vehicles:
/// the shapes decomposition and redistribution need.
pub fn family_fleet4(_tier: Tier) -> Vec<PProblem> {
    use TaskKind::*;
    let mut out = vec![];
    let deliveries = |n: usize| -> Vec<PJob> { (0..n).map(|i| job(&format!("d{i}"), vec![task(Delivery, vec![place(1 + (i + 3) % 4, 2., &[], None)], &[1])])).collect() };
    for n in [5usize, 6] {
        for kind in 0..3 {
            for with_relation in [false, true] {
                let mut s = shift(ShiftKind::Closed);
                s.end = Some((0, 400.));
                match kind {
                    0 => s.breaks = vec![PBreak { time: (30., 90.), duration: 7., loc: None, tag: Some("lunch".into()), offset: false, policy: None }],
                    1 => s.reloads = vec![PReload { loc: 0, duration: 4., times: vec![], tag: Some("r1".into()), resource_id: None }],
                    _ => {
                        s.breaks = vec![PBreak { time: (30., 90.), duration: 7., loc: None, tag: Some("lunch".into()), offset: false, policy: None }];
                        s.reloads = vec![PReload { loc: 0, duration: 4., times: vec![], tag: Some("r1".into()), resource_id: None }];
                    }
                }
                let mut p = base(format!("fleet4/n{n}/k{kind}/r{with_relation}"), deliveries(n), vec![vehicle_type("v", 4, &[2], vec![s])]);
                if with_relation {
                    p.relations = vec![PRelation { kind: "any".into(), jobs: vec!["d1".into(), "d2".into()], vehicle_id: "v_2".into(), shift_index: Some(0) }];
                }
                out.push(p);
            }
        }
    }
    out
}

/// F-cluster: vicinity clustering (judged by the accounting rules only): jobs close to each other, relations and
/// explicit filtering.
pub fn family_cluster() -> Vec<PProblem> {
    use TaskKind::*;
    let mut out = vec![];
    let jobs = vec![
        job("c1", vec![task(Delivery, vec![place(1, 3., &[], None)], &[1])]),
        job("c2", vec![task(Delivery, vec![place(1, 2., &[], None)], &[1])]),
        job("c3", vec![task(Delivery, vec![place(2, 2., &[], None)], &[1])]),
        job("c4", vec![task(Delivery, vec![place(4, 2., &[], None)], &[1])]),
        job("c5", vec![task(Pickup, vec![place(2, 1., &[], None)], &[1])]),
    ];
    let relations: Vec<Option<(&str, Vec<&str>)>> =
        vec![None, Some(("any", vec!["c1"])), Some(("any", vec!["c2", "c3"])), Some(("sequence", vec!["c1", "c4"])), Some(("strict", vec!["departure", "c3"]))];
    let filterings = vec![None, Some(json!({"excludeJobIds": ["c3"]})), Some(json!({"excludeJobIds": []})), Some(json!({"excludeJobIds": ["c4", "c5"]}))];
    let servings = vec![json!({"type": "original", "parking": 5.0}), json!({"type": "multiplier", "value": 0.5, "parking": 0.0}), json!({"type": "fixed", "value": 1.0, "parking": 2.0})];
    for (ri, rel) in relations.iter().enumerate() {
        for (fi, filtering) in filterings.iter().enumerate() {
            for (si, serving) in servings.iter().enumerate() {
                for visiting in ["continue", "return"] {
                    // thin: every combination of relation x filtering, the other axes rotate
                    if (ri + fi + si) % 3 != 0 && visiting == "return" {
                        continue;
                    }
                    // capacity 2 forces several tours with clustered stops
                    for cap in [4i64, 2] {
                    let mut p = base(format!("cluster/r{ri}/f{fi}/s{si}/{visiting}/c{cap}"), jobs.clone(), vec![vehicle_type("v", 3, &[cap], vec![shift(ShiftKind::Closed)])]);
                    let mut c = json!({
                        "type": "vicinity", "profile": {"matrix": "car"},
                        "threshold": {"duration": 30.0, "distance": 60.0},
                        "visiting": visiting, "serving": serving,
                    });
                    if let Some(f) = filtering {
                        c["filtering"] = f.clone();
                    }
                    p.clustering = Some(c);
                    if let Some((kind, rel_jobs)) = rel {
                        p.relations = vec![PRelation { kind: kind.to_string(), jobs: rel_jobs.iter().map(|s| s.to_string()).collect(), vehicle_id: "v_1".into(), shift_index: Some(0) }];
                    }
                    out.push(p.fit_matrices());
                    }
                }
            }
        }
    }
    out
}

/// Clusters which span several locations (the members are reached on foot: commute records, parking), both visiting
/// policies, every serving policy; the matrix is asymmetric, so forward and backward commutes differ.
pub fn family_cluster_walk() -> Vec<PProblem> {
    use TaskKind::*;
    let mut out = vec![];
    let servings = vec![json!({"type": "original", "parking": 5.0}), json!({"type": "multiplier", "value": 0.5, "parking": 0.0}), json!({"type": "fixed", "value": 1.0, "parking": 2.0})];
    for (pi, pos) in [[0i64, 50, 53, 57, 120], [0, 40, 42, 90, 93]].iter().enumerate() {
        for (si, serving) in servings.iter().enumerate() {
            for visiting in ["continue", "return"] {
                for cap in [4i64, 2] {
                    let jobs = vec![
                        job("w1", vec![task(Delivery, vec![place(1, 3., &[], None)], &[1])]),
                        job("w2", vec![task(Delivery, vec![place(2, 2., &[], None)], &[1])]),
                        job("w3", vec![task(Delivery, vec![place(3, 2., &[], None)], &[1])]),
                        job("w4", vec![task(Pickup, vec![place(4, 1., &[], None)], &[1])]),
                    ];
                    let mut p = base(format!("cluster/walk/p{pi}/s{si}/{visiting}/c{cap}"), jobs, vec![vehicle_type("v", 2, &[cap], vec![shift(ShiftKind::Closed)])]);
                    p.matrices = vec![line_matrix("car", pos)];
                    p.clustering = Some(json!({
                        "type": "vicinity", "profile": {"matrix": "car"}, "threshold": {"duration": 30.0, "distance": 60.0},
                        "visiting": visiting, "serving": serving,
                    }));
                    out.push(p);
                }
            }
        }
    }
    out
}

/// Clustering x time windows: jobs close to each other whose windows overlap widely, narrowly, barely or not at all, with
/// one and two windows, under every threshold option (minSharedTime, smallestTimeWindow, maxJobsPerCluster), every serving
/// policy (parking shrinks the windows) and both visiting policies. Judged by the accounting rules, the commute replay and
/// the rule "the service of a clustered job starts inside one of its windows".
pub fn family_cluster_tw() -> Vec<PProblem> {
    use TaskKind::*;
    let mut out = vec![];
    let window_sets: Vec<[Vec<(f64, f64)>; 4]> = vec![
        [vec![(0., 300.)], vec![(0., 300.)], vec![(0., 300.)], vec![(0., 300.)]],
        [vec![(60., 80.)], vec![(60., 75.)], vec![(70., 90.)], vec![(55., 70.)]],
        [vec![(60., 70.)], vec![(68., 90.)], vec![(60., 100.)], vec![(100., 140.)]],
        [vec![(0., 30.), (100., 130.)], vec![(20., 60.), (120., 125.)], vec![(100., 200.)], vec![]],
        [vec![(60., 62.)], vec![(60., 66.)], vec![(64., 70.)], vec![(60., 61.)]],
        [vec![(50., 90.)], vec![(85., 95.)], vec![(50., 58.)], vec![(57., 64.)]],
    ];
    let thresholds = vec![
        json!({"duration": 30.0, "distance": 60.0}),
        json!({"duration": 30.0, "distance": 60.0, "minSharedTime": 5.0}),
        json!({"duration": 30.0, "distance": 60.0, "smallestTimeWindow": 8.0}),
        json!({"duration": 30.0, "distance": 60.0, "maxJobsPerCluster": 2}),
        json!({"duration": 30.0, "distance": 60.0, "maxJobsPerCluster": 3, "minSharedTime": 1.0}),
        json!({"duration": 5.0, "distance": 60.0, "smallestTimeWindow": 2.0}),
    ];
    let servings = vec![json!({"type": "original", "parking": 5.0}), json!({"type": "multiplier", "value": 0.5, "parking": 0.0}), json!({"type": "fixed", "value": 1.0, "parking": 2.0})];
    for (wi, ws) in window_sets.iter().enumerate() {
        for (ti, threshold) in thresholds.iter().enumerate() {
            for (si, serving) in servings.iter().enumerate() {
                for visiting in ["continue", "return"] {
                    let jobs = vec![
                        job("t1", vec![task(Delivery, vec![place(1, 3., &ws[0], None)], &[1])]),
                        job("t2", vec![task(Delivery, vec![place(2, 2., &ws[1], None)], &[1])]),
                        job("t3", vec![task(Delivery, vec![place(3, 2., &ws[2], None)], &[1])]),
                        job("t4", vec![task(Pickup, vec![place(1, 4., &ws[3], None)], &[1])]),
                        job("far", vec![task(Pickup, vec![place(4, 1., &[], None)], &[1])]),
                    ];
                    let mut p = base(format!("cluster/tw/w{wi}/t{ti}/s{si}/{visiting}"), jobs, vec![vehicle_type("v", 2, &[4], vec![shift(ShiftKind::Closed)])]);
                    p.matrices = vec![line_matrix("car", &[0, 50, 53, 57, 120])];
                    p.clustering = Some(json!({
                        "type": "vicinity", "profile": {"matrix": "car"}, "threshold": threshold,
                        "visiting": visiting, "serving": serving,
                    }));
                    out.push(p);
                }
            }
        }
    }
    // alternative places: a job can join a cluster through its SECOND place (the first one is far away / at another cluster's spot)
    for wi in [0usize, 1, 3] {
        let ws = &window_sets[wi];
        for (si, serving) in servings.iter().enumerate() {
            for visiting in ["continue", "return"] {
                let jobs = vec![
                    job("t1", vec![task(Delivery, vec![place(4, 3., &ws[0], Some("far")), place(1, 3., &ws[0], Some("near"))], &[1])]),
                    job("t2", vec![task(Delivery, vec![place(2, 2., &ws[1], None)], &[1])]),
                    job("t3", vec![task(Delivery, vec![place(4, 2., &ws[2], None), place(3, 2., &ws[2], Some("alt"))], &[1])]),
                    job("t4", vec![task(Pickup, vec![place(1, 4., &ws[3], None)], &[1])]),
                    job("far", vec![task(Pickup, vec![place(4, 1., &[], None)], &[1])]),
                ];
                let mut p = base(format!("cluster/tw-alt/w{wi}/s{si}/{visiting}"), jobs, vec![vehicle_type("v", 2, &[4], vec![shift(ShiftKind::Closed)])]);
                p.matrices = vec![line_matrix("car", &[0, 50, 53, 57, 120])];
                p.clustering = Some(json!({
                    "type": "vicinity", "profile": {"matrix": "car"}, "threshold": {"duration": 30.0, "distance": 60.0},
                    "visiting": visiting, "serving": serving,
                }));
                out.push(p);
            }
        }
    }
    out
}

/// The same jobs with every assignment of a five-window alphabet to the four close jobs (625) x serving x visiting; the
/// quick tier takes every third problem of the list.
pub fn family_cluster_tw_grid(tier: Tier) -> Vec<PProblem> {
    use TaskKind::*;
    let alphabet: [(f64, f64); 5] = [(60., 70.), (60., 80.), (66., 75.), (70., 90.), (55., 62.)];
    let servings = [json!({"type": "original", "parking": 3.0}), json!({"type": "multiplier", "value": 0.5, "parking": 0.0}), json!({"type": "fixed", "value": 1.0, "parking": 1.0})];
    let mut out = vec![];
    for code in 0..625usize {
        let w = |k: usize| [alphabet[(code / 5usize.pow(k as u32)) % 5]];
        for (si, serving) in servings.iter().enumerate() {
            for visiting in ["continue", "return"] {
                let jobs = vec![
                    job("t1", vec![task(Delivery, vec![place(1, 3., &w(0), None)], &[1])]),
                    job("t2", vec![task(Delivery, vec![place(2, 2., &w(1), None)], &[1])]),
                    job("t3", vec![task(Delivery, vec![place(3, 2., &w(2), None)], &[1])]),
                    job("t4", vec![task(Pickup, vec![place(1, 4., &w(3), None)], &[1])]),
                    job("far", vec![task(Pickup, vec![place(4, 1., &[], None)], &[1])]),
                ];
                let mut p = base(format!("cluster/twgrid/{code}/s{si}/{visiting}"), jobs, vec![vehicle_type("v", 2, &[4], vec![shift(ShiftKind::Closed)])]);
                p.matrices = vec![line_matrix("car", &[0, 50, 53, 57, 120])];
                p.clustering = Some(json!({
                    "type": "vicinity", "profile": {"matrix": "car"}, "threshold": {"duration": 30.0, "distance": 60.0},
                    "visiting": visiting, "serving": serving,
                }));
                out.push(p);
            }
        }
    }
    out.into_iter().step_by(tier.pick(3, 1)).collect()
}

/// Clustering x job attributes: jobs which end up in one cluster keep their own skills / group / compatibility needs
/// (the cluster is served by one vehicle: it has to satisfy every member).
pub fn family_cluster_attr() -> Vec<PProblem> {
    use TaskKind::*;
    let mut out = vec![];
    let sk = |all: &[&str], one: &[&str], none: &[&str]| {
        Some(PSkills { all_of: all.iter().map(|s| s.to_string()).collect(), one_of: one.iter().map(|s| s.to_string()).collect(), none_of: none.iter().map(|s| s.to_string()).collect() })
    };
    // (skills of c1, skills of c2): both directions of every inclusion
    let pairs: Vec<(Option<PSkills>, Option<PSkills>)> = vec![
        (sk(&[], &["a", "b"], &[]), sk(&[], &["a"], &[])),
        (sk(&[], &["a"], &[]), sk(&[], &["a", "b"], &[])),
        (sk(&["a"], &[], &[]), sk(&["a", "b"], &[], &[])),
        (sk(&["a", "b"], &[], &[]), sk(&["a"], &[], &[])),
        (sk(&[], &[], &["a"]), sk(&[], &[], &["a", "b"])),
        (sk(&[], &[], &["a", "b"]), sk(&[], &[], &["a"])),
        (None, sk(&[], &["a"], &[])),
        (sk(&[], &["b"], &[]), None),
        (sk(&["a"], &[], &[]), sk(&[], &[], &["a"])),
    ];
    let fleets: Vec<Vec<Vec<&str>>> = vec![vec![vec!["b"], vec!["a"]], vec![vec!["a", "b"], vec![]], vec![vec!["b"]], vec![vec!["a"], vec!["b"], vec![]]];
    for (pi, (s1, s2)) in pairs.iter().enumerate() {
        for (fi, fleet) in fleets.iter().enumerate() {
            for visiting in ["continue", "return"] {
                let mut jobs = vec![
                    job("c1", vec![task(Delivery, vec![place(1, 3., &[], None)], &[1])]),
                    job("c2", vec![task(Delivery, vec![place(1, 2., &[], None)], &[1])]),
                    job("c3", vec![task(Delivery, vec![place(2, 2., &[], None)], &[1])]),
                ];
                jobs[0].skills = s1.clone();
                jobs[1].skills = s2.clone();
                let vehicles = fleet
                    .iter()
                    .enumerate()
                    .map(|(i, skills)| {
                        let mut v = vehicle_type(&format!("v{i}"), 1, &[4], vec![shift(ShiftKind::Closed)]);
                        v.skills = skills.iter().map(|s| s.to_string()).collect();
                        v
                    })
                    .collect();
                let mut p = base(format!("cluster/attr/skills/p{pi}/f{fi}/{visiting}"), jobs, vehicles);
                p.clustering = Some(json!({
                    "type": "vicinity", "profile": {"matrix": "car"}, "threshold": {"duration": 30.0, "distance": 60.0},
                    "visiting": visiting, "serving": {"type": "original", "parking": 2.0},
                }));
                out.push(p.fit_matrices());
            }
        }
    }
    // groups and compatibility
    for variant in 0..4 {
        for cap in [4i64, 2] {
            let mut jobs = vec![
                job("c1", vec![task(Delivery, vec![place(1, 3., &[], None)], &[1])]),
                job("c2", vec![task(Delivery, vec![place(1, 2., &[], None)], &[1])]),
                job("c3", vec![task(Delivery, vec![place(2, 2., &[], None)], &[1])]),
                job("c4", vec![task(Pickup, vec![place(2, 1., &[], None)], &[1])]),
            ];
            match variant {
                0 => {
                    jobs[0].group = Some("g1".into());
                    jobs[2].group = Some("g1".into());
                }
                1 => {
                    jobs[0].group = Some("g1".into());
                    jobs[1].group = Some("g2".into());
                    jobs[3].group = Some("g1".into());
                }
                2 => {
                    jobs[0].compatibility = Some("food".into());
                    jobs[1].compatibility = Some("chem".into());
                }
                _ => {
                    jobs[0].compatibility = Some("food".into());
                    jobs[2].compatibility = Some("chem".into());
                    jobs[3].compatibility = Some("food".into());
                }
            }
            let mut p = base(format!("cluster/attr/gc/v{variant}/c{cap}"), jobs, vec![vehicle_type("v", 3, &[cap], vec![shift(ShiftKind::Closed)])]);
            p.clustering = Some(json!({
                "type": "vicinity", "profile": {"matrix": "car"}, "threshold": {"duration": 30.0, "distance": 60.0},
                "visiting": "continue", "serving": {"type": "original", "parking": 2.0},
            }));
            out.push(p.fit_matrices());
        }
    }
    out
}

/// F-timedep: time-dependent routing: two matrices of one profile (in effect from 0 s / from 5 s on) whose distances and
/// travel times differ; the departure is fixed (start.latest == start.earliest) so that only the first leg uses the first one.
pub fn family_timedep() -> Vec<PProblem> {
    let templates = core_templates();
    let mut out = vec![];
    for picks in multisets(templates.len(), 2).into_iter().chain(multisets(templates.len(), 3).into_iter().step_by(5)) {
        for (si, sk) in [ShiftKind::StartLatest, ShiftKind::Open].iter().enumerate() {
            let mut s = shift(*sk);
            s.start_latest = Some(0.);
            let mut p = base(format!("timedep/{picks:?}/s{si}"), instantiate(&templates, &picks), vec![vehicle_type("v", 2, &[3], vec![s])]);
            let mut first = standard_matrix("car", 5);
            first.timestamp = Some(0.);
            let mut second = standard_matrix("car", 5);
            second.timestamp = Some(5.);
            second.durations = second.durations.iter().map(|d| if *d == 0 { 0 } else { d + 3 }).collect();
            second.distances = second.distances.iter().map(|d| d * 2 + if *d == 0 { 0 } else { 7 }).collect();
            p.matrices = vec![first, second];
            let p = p.fit_matrices();
            // the same problem with the matrices listed in the reverse order: the order in the document means nothing
            let mut reversed = p.clone();
            reversed.name = format!("{}/reversed", reversed.name);
            reversed.matrices.reverse();
            out.push(p);
            out.push(reversed);
        }
    }
    out
}

/// F-reqbreak: required breaks with exact times (judged by the accounting rules and by the break's own rules only: the
/// schedule around a break which is taken on the road is not replayed).
pub fn family_reqbreak() -> Vec<PProblem> {
    use TaskKind::*;
    let mut out = vec![];
    for n in [2usize, 3, 4] {
        for (wi, window) in [(10., 15.), (30., 40.), (60., 80.), (200., 210.)].iter().enumerate() {
            for duration in [7., 25.] {
                for fleet in [1usize, 2] {
                    for offset in [false, true] {
                        let mut s = shift(ShiftKind::StartLatest);
                        s.required_breaks = vec![(window.0, window.1, duration)];
                        s.required_offset = offset;
                        let jobs: Vec<PJob> = (0..n).map(|i| job(&format!("d{i}"), vec![task(Delivery, vec![place(1 + i % 4, 2., &[], None)], &[1])])).collect();
                        out.push(base(format!("reqbreak/n{n}/w{wi}/d{duration}/f{fleet}/{}", if offset { "offset" } else { "exact" }), jobs.clone(), vec![vehicle_type("v", fleet, &[4], vec![s.clone()])]).fit_matrices());
                        // exact times with a departure which may move: a first job with a late window lets the vehicle leave
                        // after an early break is over (the break then is no part of the tour)
                        if !offset && fleet == 1 {
                            let mut s = s;
                            s.start_latest = None;
                            let mut jobs = jobs;
                            jobs[0].tasks[0].places[0].times = vec![(120., 300.)];
                            out.push(base(format!("reqbreak/n{n}/w{wi}/d{duration}/late-first-job"), jobs.clone(), vec![vehicle_type("v", fleet, &[4], vec![s.clone()])]).fit_matrices());
                            // every job is late: nothing keeps the vehicle from leaving after the break
                            for j in jobs.iter_mut() {
                                j.tasks[0].places[0].times = vec![(120., 300.)];
                            }
                            out.push(base(format!("reqbreak/n{n}/w{wi}/d{duration}/late-all-jobs"), jobs, vec![vehicle_type("v", fleet, &[4], vec![s])]).fit_matrices());
                        }
                    }
                }
            }
        }
    }
    out
}

/// F-recharge (experimental feature of the library): a distance limit between recharges and recharge stations.
pub fn family_recharge() -> Vec<PProblem> {
    use TaskKind::*;
    let mut out = vec![];
    for limit in [160., 210., 320.] {
        for stations in [vec![(2usize, 5., Some("s2".to_string()))], vec![(2, 5., Some("s2".to_string())), (3, 4., Some("s3".to_string()))], vec![(1, 3., None), (3, 4., None)]] {
            for picks in [vec![3usize, 4], vec![4], vec![1, 3, 4], vec![2, 4, 4]] {
                for sk in [ShiftKind::Closed, ShiftKind::Open] {
                    let mut s = shift(sk);
                    s.recharge = Some((limit, stations.clone()));
                    let jobs: Vec<PJob> = picks.iter().enumerate().map(|(i, l)| job(&format!("d{i}"), vec![task(Delivery, vec![place(*l, 2., &[], None)], &[1])])).collect();
                    out.push(base(format!("recharge/l{limit}/st{}/{picks:?}/{sk:?}", stations.len()), jobs, vec![vehicle_type("v", 2, &[4], vec![s])]).fit_matrices());
                }
            }
        }
    }
    out
}

/// F-long50: one long tour (44 single jobs and three pickup-delivery jobs whose delivery lies "before" the pickup on the
/// way) so that the evaluator's SAMPLED leg selection is used (more than 48 legs for single jobs, 32 for multi jobs).
pub fn family_long50() -> Vec<PProblem> {
    use TaskKind::*;
    let mut jobs: Vec<PJob> = (0..44).map(|i| job(&format!("d{i}"), vec![task(Delivery, vec![place(1 + i % 4, 1., &[], None)], &[1])])).collect();
    for (i, (from, to)) in [(4usize, 1usize), (3, 1), (4, 2)].iter().enumerate() {
        jobs.push(job(&format!("m{i}"), vec![task(Pickup, vec![place(*from, 1., &[], Some("p"))], &[1]), task(Delivery, vec![place(*to, 1., &[], Some("d"))], &[1])]));
    }
    let mut s = shift(ShiftKind::Closed);
    s.end = Some((0, 5000.));
    let v = vehicle_type("v", 2, &[60], vec![s]);
    vec![base("long50".to_string(), jobs, vec![v]).fit_matrices()]
}

/// F-mixed10: ten jobs of every kind the oracle replays fully, three vehicles of two types, reloads, an optional break,
/// skills, a relation: solved with many generations so that every search operator gets its turn on a rich problem.
pub fn family_mixed10() -> Vec<PProblem> {
    use TaskKind::*;
    let mut out = vec![];
    for variant in 0..3 {
        let mut jobs = vec![
            job("d0", vec![task(Delivery, vec![place(1, 2., &[], None)], &[1])]),
            job("d1", vec![task(Delivery, vec![place(2, 2., &[(0., 150.)], None)], &[1])]),
            job("d2", vec![task(Delivery, vec![place(3, 1., &[(50., 400.)], None)], &[2])]),
            job("d3", vec![task(Delivery, vec![place(4, 1., &[], Some("far"))], &[1])]),
            job("p0", vec![task(Pickup, vec![place(1, 1., &[], None)], &[1])]),
            job("p1", vec![task(Pickup, vec![place(3, 2., &[(20., 300.)], None)], &[1])]),
            job("m0", vec![task(Pickup, vec![place(2, 1., &[], Some("p"))], &[1]), task(Delivery, vec![place(4, 1., &[], Some("d"))], &[1])]),
            job("m1", vec![task(Pickup, vec![place(4, 1., &[], Some("p"))], &[1]), task(Delivery, vec![place(1, 1., &[(0., 500.)], Some("d"))], &[1])]),
            job("s0", vec![task(Service, vec![place(2, 3., &[(100., 250.)], None)], &[])]),
            job("s1", vec![task(Service, vec![place(3, 3., &[(0., 40.), (200., 350.)], None), place(1, 3., &[], Some("alt"))], &[])]),
        ];
        jobs[3].skills = Some(PSkills { all_of: vec!["crane".into()], ..Default::default() });
        let mut s_a = shift(ShiftKind::Closed);
        s_a.end = Some((0, 600.));
        s_a.reloads = vec![PReload { loc: 0, duration: 3., times: vec![], tag: Some("r1".into()), resource_id: None }];
        let mut s_b = shift(ShiftKind::StartLatest);
        s_b.end = Some((0, 600.));
        s_b.breaks = vec![PBreak { time: (60., 200.), duration: 6., loc: None, tag: Some("lunch".into()), offset: false, policy: None }];
        let mut a = vehicle_type("a", 2, &[3], vec![s_a]);
        a.skills = vec!["crane".into()];
        let mut b = vehicle_type("b", 1, &[4], vec![s_b]);
        b.fixed = 30.;
        b.cost_distance = 2.;
        if variant == 1 {
            b.limits = Some(PLimits { max_distance: Some(260.), tour_size: Some(5), ..Default::default() });
        }
        let mut p = base(format!("mixed10/v{variant}"), jobs, vec![a, b]);
        if variant == 2 {
            p.relations = vec![PRelation { kind: "sequence".into(), jobs: vec!["d0".into(), "p0".into()], vehicle_id: "a_1".into(), shift_index: Some(0) }];
        }
        out.push(p.fit_matrices());
    }
    out
}

/// F-waits: the vehicle waits at an early stop with a narrow window and again (longer) at a later stop: whatever
/// reschedules the departure afterwards (departure advance, limits) may not push the early stop out of its window.
pub fn family_waits(_tier: Tier) -> Vec<PProblem> {
    use TaskKind::*;
    let mut out = vec![];
    for (a_start, a_len) in [(30., 0.), (30., 5.), (50., 5.), (50., 20.)] {
        for (b_start, b_len) in [(120., 10.), (200., 100.)] {
            for third in 0..3 {
                for (kind, latest) in [(ShiftKind::Closed, None), (ShiftKind::Open, None), (ShiftKind::Closed, Some(10.))] {
                    let mut jobs = vec![
                        job("early", vec![task(Delivery, vec![place(1, 1., &[(a_start, a_start + a_len)], None)], &[1])]),
                        job("late", vec![task(Delivery, vec![place(3, 1., &[(b_start, b_start + b_len)], None)], &[1])]),
                    ];
                    match third {
                        1 => jobs.push(job("free", vec![task(Pickup, vec![place(2, 2., &[], None)], &[1])])),
                        2 => jobs.push(job("mid", vec![task(Service, vec![place(2, 2., &[(a_start + 30., b_start)], None)], &[])])),
                        _ => {}
                    }
                    let mut s = shift(kind);
                    s.start_latest = latest;
                    let v = vehicle_type("v", 1, &[5], vec![s]);
                    out.push(base(format!("waits/a{a_start}+{a_len}/b{b_start}+{b_len}/t{third}/{kind:?}/{latest:?}"), jobs, vec![v]));
                }
            }
        }
    }
    out
}

// ---------------------------------------------------------------------------------------------
// F-combo: every pair (thorough: triple) of feature transforms applied to one base problem. The transforms are written so
// that every combination is a valid problem whose relations are consistent with its constraints.

fn combo_base() -> PProblem {
    use TaskKind::*;
    let jobs = vec![
        job("d0", vec![task(Delivery, vec![place(1, 2., &[], None)], &[1])]),
        job("d1", vec![task(Delivery, vec![place(2, 2., &[], None)], &[1])]),
        job("d2", vec![task(Delivery, vec![place(3, 1., &[], None)], &[1])]),
        job("d3", vec![task(Delivery, vec![place(4, 1., &[], None)], &[1])]),
        job("d4", vec![task(Delivery, vec![place(2, 1., &[], None)], &[1])]),
        job("p0", vec![task(Pickup, vec![place(3, 1., &[], None)], &[1])]),
    ];
    let a = vehicle_type("a", 1, &[3], vec![shift(ShiftKind::Closed)]);
    let mut b = vehicle_type("b", 1, &[3], vec![shift(ShiftKind::Closed)]);
    b.fixed = 25.;
    base("combo".to_string(), jobs, vec![a, b])
}

fn combo_job<'a>(p: &'a mut PProblem, id: &str) -> &'a mut PJob {
    p.jobs.iter_mut().find(|j| j.id == id).expect("combo job")
}

fn combo_limits(v: &mut PVehicleType) -> &mut PLimits {
    v.limits.get_or_insert_with(PLimits::default)
}

/// The transforms in the order in which they are applied (shift-cloning comes last).
pub fn combo_transforms() -> Vec<(&'static str, fn(&mut PProblem))> {
    use TaskKind::*;
    vec![
        ("reload", |p| {
            for v in p.vehicles.iter_mut() {
                v.capacity = vec![2];
                for s in v.shifts.iter_mut() {
                    s.reloads = vec![PReload { loc: 0, duration: 3., times: vec![], tag: Some("r".into()), resource_id: None }];
                }
            }
        }),
        ("break", |p| {
            p.vehicles[0].shifts[0].breaks = vec![PBreak { time: (40., 120.), duration: 5., loc: None, tag: Some("lunch".into()), offset: false, policy: None }];
        }),
        ("tw", |p| {
            combo_job(p, "d0").tasks[0].places[0].times = vec![(0., 60.)];
            combo_job(p, "d2").tasks[0].places[0].times = vec![(90., 200.)];
            combo_job(p, "p0").tasks[0].places[0].times = vec![(20., 300.)];
        }),
        ("pd", |p| {
            combo_job(p, "d4").tasks = vec![task(Pickup, vec![place(2, 1., &[], Some("p"))], &[1]), task(Delivery, vec![place(4, 1., &[], Some("d"))], &[1])];
        }),
        ("skills", |p| {
            p.vehicles[0].skills = vec!["s".into()];
            combo_job(p, "d3").skills = Some(PSkills { all_of: vec!["s".into()], ..Default::default() });
        }),
        ("groups", |p| {
            combo_job(p, "d0").group = Some("g1".into());
            combo_job(p, "d1").group = Some("g1".into());
        }),
        ("compat", |p| {
            combo_job(p, "d0").compatibility = Some("x".into());
            combo_job(p, "d2").compatibility = Some("y".into());
        }),
        ("max-distance", |p| combo_limits(&mut p.vehicles[0]).max_distance = Some(200.)),
        ("max-duration", |p| combo_limits(&mut p.vehicles[1]).max_duration = Some(200.)),
        ("tour-size", |p| combo_limits(&mut p.vehicles[1]).tour_size = Some(3)),
        ("rel-sequence", |p| p.relations.push(PRelation { kind: "sequence".into(), jobs: vec!["d0".into(), "d1".into()], vehicle_id: "a_1".into(), shift_index: Some(0) })),
        ("rel-strict", |p| p.relations.push(PRelation { kind: "strict".into(), jobs: vec!["departure".into(), "d2".into()], vehicle_id: "b_1".into(), shift_index: Some(0) })),
        ("rel-any", |p| p.relations.push(PRelation { kind: "any".into(), jobs: vec!["p0".into()], vehicle_id: "a_1".into(), shift_index: Some(0) })),
        ("open-end", |p| p.vehicles[1].shifts[0].end = None),
        ("scale", |p| p.vehicles[1].scale = Some(1.5)),
        ("alt-place", |p| {
            // NOTE: not a job of a relation (E1203 rejects jobs with several places there, even in `any` relations)
            let j = combo_job(p, "d3");
            j.tasks[0].places[0].tag = Some("main".into());
            let mut alt = j.tasks[0].places[0].clone();
            alt.loc = 2;
            alt.tag = Some("alt".into());
            j.tasks[0].places.push(alt);
        }),
        ("start-latest", |p| p.vehicles[0].shifts[0].start_latest = Some(0.)),
        ("tight-end", |p| {
            if let Some(end) = p.vehicles[1].shifts[0].end.as_mut() {
                end.1 = 170.;
            }
        }),
        ("service", |p| p.jobs.push(job("s0", vec![task(Service, vec![place(4, 4., &[], None)], &[])]))),
        ("big", |p| combo_job(p, "d3").tasks[0].demand = vec![2]),
        ("same-loc", |p| {
            let j = combo_job(p, "d4");
            if j.tasks.len() == 1 {
                j.tasks[0].places[0].loc = 1;
                j.tasks[0].places[0].duration = 0.;
            }
        }),
        ("value", |p| {
            combo_job(p, "d3").value = Some(5.);
            p.objectives = Some(json!([{"type": "maximize-value"}, {"type": "minimize-unassigned"}, {"type": "minimize-tours"}, {"type": "minimize-cost"}]));
        }),
        ("resource", |p| {
            for v in p.vehicles.iter_mut() {
                v.capacity = vec![2];
                for s in v.shifts.iter_mut() {
                    s.reloads = vec![PReload { loc: 0, duration: 3., times: vec![], tag: Some("r".into()), resource_id: Some("stock".into()) }];
                }
            }
            p.resources = vec![("stock".into(), vec![3])];
        }),
        ("recharge", |p| p.vehicles[1].shifts[0].recharge = Some((210., vec![(2, 5., Some("s2".to_string()))]))),
        // after everything which sets a capacity or a demand: a second load dimension
        ("multidim", |p| {
            for v in p.vehicles.iter_mut() {
                v.capacity.push(2);
            }
            for (_, cap) in p.resources.iter_mut() {
                cap.push(3);
            }
            for j in p.jobs.iter_mut() {
                let second = if ["d0", "d2", "p0"].contains(&j.id.as_str()) { 1 } else { 0 };
                for t in j.tasks.iter_mut() {
                    if !t.demand.is_empty() {
                        t.demand.push(second);
                    }
                }
            }
        }),
        // last: the first shift of type a as it is now gets a twin later in the day
        // the second vehicle drives on its own routing profile: slower and along other distances than the first
        ("profile", |p| {
            p.vehicles[1].profile = "truck".into();
            let mut truck = p.matrices[0].clone();
            truck.profile = "truck".into();
            truck.durations = truck.durations.iter().map(|d| d * 2).collect();
            truck.distances = truck.distances.iter().map(|d| if *d == 0 { 0 } else { d + 5 }).collect();
            p.matrices.push(truck);
        }),
        // vicinity clustering over the whole plan (d1/d4 and d2/p0 share a location, every neighbour is within the threshold)
        ("cluster", |p| {
            p.clustering = Some(json!({
                "type": "vicinity", "profile": {"matrix": "car"}, "threshold": {"duration": 30.0, "distance": 60.0},
                "visiting": "continue", "serving": {"type": "original", "parking": 2.0},
            }))
        }),
        ("two-shifts", |p| {
            let mut s = p.vehicles[0].shifts[0].clone();
            if let Some(end) = p.vehicles[0].shifts[0].end.as_mut() {
                end.1 = 250.;
            }
            s.start_earliest += 300.;
            s.start_latest = s.start_latest.map(|t| t + 300.);
            if let Some(end) = s.end.as_mut() {
                end.1 = 700.;
            }
            for b in s.breaks.iter_mut() {
                if !b.offset {
                    b.time = (b.time.0 + 300., b.time.1 + 300.);
                }
            }
            p.vehicles[0].shifts.push(s);
        }),
    ]
}

/// Every `k`-subset of the transforms applied (in list order) to the base problem.
pub fn family_combo(k: usize) -> Vec<PProblem> {
    let transforms = combo_transforms();
    let n = transforms.len();
    let mut out = vec![];
    let mut idx: Vec<usize> = (0..k).collect();
    if k == 0 || k > n {
        return out;
    }
    loop {
        let mut p = combo_base();
        for i in &idx {
            (transforms[*i].1)(&mut p);
        }
        p.name = format!("combo/{}", idx.iter().map(|i| transforms[*i].0).collect::<Vec<_>>().join("+"));
        out.push(p.fit_matrices());
        // next combination
        let mut i = k;
        while i > 0 && idx[i - 1] == n - k + i - 1 {
            i -= 1;
        }
        if i == 0 {
            break;
        }
        idx[i - 1] += 1;
        for j in i..k {
            idx[j] = idx[j - 1] + 1;
        }
    }
    out
}

pub fn all_families(tier: Tier) -> Vec<(&'static str, Vec<PProblem>)> {
    raw_families(tier).into_iter().map(|(n, ps)| (n, ps.into_iter().map(|p| p.fit_matrices()).collect())).collect()
}

fn raw_families(tier: Tier) -> Vec<(&'static str, Vec<PProblem>)> {
    vec![
        ("core", family_core(tier)),
        ("pd", family_pd(tier)),
        ("multidim", family_multidim(tier)),
        ("attr", family_attr(tier)),
        ("limits", family_limits(tier)),
        ("cond", family_cond(tier)),
        ("rel", family_rel(tier)),
        ("unreach", family_unreach(tier)),
        ("scale", family_scale(tier)),
        ("infeasible", family_infeasible(tier)),
        ("shape", family_shape(tier)),
        ("places", family_places(tier)),
        ("fleet4", family_fleet4(tier)),
        ("waits", family_waits(tier)),
    ]
}
