//! Harness-side implementations of the public rosomaxa traits: a solution with an explicit fitness vector, a
//! lexicographic objective and a heuristic context whose every answer is scripted.

use rosomaxa::prelude::*;
use rosomaxa::utils::Timer;
use std::any::Any;
use std::cmp::Ordering;
use std::collections::HashMap;
use std::sync::Arc;

#[derive(Clone, Debug)]
pub struct VSol {
    pub fit: Vec<Float>,
}

impl HeuristicSolution for VSol {
    fn fitness(&self) -> impl Iterator<Item = Float> {
        self.fit.clone().into_iter()
    }
    fn deep_copy(&self) -> Self {
        self.clone()
    }
}

/// Lexicographic comparison with `total_cmp` per component (as the library's own objectives do).
#[derive(Clone, Default)]
pub struct VObj;

impl HeuristicObjective for VObj {
    type Solution = VSol;
    fn total_order(&self, a: &VSol, b: &VSol) -> Ordering {
        for (x, y) in a.fit.iter().zip(b.fit.iter()) {
            // +0 and -0 are the same fitness
            if *x == 0. && *y == 0. {
                continue;
            }
            match x.total_cmp(y) {
                Ordering::Equal => continue,
                o => return o,
            }
        }
        Ordering::Equal
    }
}

pub struct StubCtx {
    pub objective: VObj,
    pub ranked: Vec<VSol>,
    pub statistics: HeuristicStatistics,
    pub phase: SelectionPhase,
    pub environment: Arc<Environment>,
    pub state: HashMap<i32, Box<dyn Any + Send + Sync>>,
}

impl StubCtx {
    pub fn new(environment: Arc<Environment>) -> Self {
        Self {
            objective: VObj,
            ranked: vec![],
            statistics: HeuristicStatistics::default(),
            phase: SelectionPhase::Exploration,
            environment,
            state: Default::default(),
        }
    }
}

impl HeuristicContext for StubCtx {
    type Objective = VObj;
    type Solution = VSol;

    fn objective(&self) -> &VObj {
        &self.objective
    }
    fn selected(&self) -> Box<dyn Iterator<Item = &'_ VSol> + '_> {
        Box::new(self.ranked.iter())
    }
    fn ranked(&self) -> Box<dyn Iterator<Item = &'_ VSol> + '_> {
        Box::new(self.ranked.iter())
    }
    fn statistics(&self) -> &HeuristicStatistics {
        &self.statistics
    }
    fn selection_phase(&self) -> SelectionPhase {
        match self.phase {
            SelectionPhase::Initial => SelectionPhase::Initial,
            SelectionPhase::Exploration => SelectionPhase::Exploration,
            SelectionPhase::Exploitation => SelectionPhase::Exploitation,
        }
    }
    fn environment(&self) -> &Environment {
        self.environment.as_ref()
    }
    fn on_initial(&mut self, solution: VSol, _: Timer) {
        self.ranked.push(solution);
    }
    fn on_generation(&mut self, offspring: Vec<VSol>, _: Float, _: Timer) {
        self.ranked.extend(offspring);
        self.statistics.generation += 1;
    }
    fn on_result(self) -> HeuristicResult<VObj, VSol> {
        Err("stub context has no population".into())
    }
}

impl Stateful for StubCtx {
    type Key = i32;
    fn set_state<T: 'static + Send + Sync>(&mut self, key: i32, state: T) {
        self.state.insert(key, Box::new(state));
    }
    fn get_state<T: 'static + Send + Sync>(&self, key: &i32) -> Option<&T> {
        self.state.get(key).and_then(|v| v.downcast_ref::<T>())
    }
    fn state_mut<T: 'static + Send + Sync, F: Fn() -> T>(&mut self, key: i32, inserter: F) -> &mut T {
        self.state.entry(key).or_insert_with(|| Box::new(inserter())).downcast_mut::<T>().unwrap()
    }
}
