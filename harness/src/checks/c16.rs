//! C16 — routing-cost providers return exactly the supplied data.
//!
//! Bounded-exhaustive enumeration of matrix sets (sizes x profiles x timestamp sets x scales x input order) and of all
//! queries over them, against a table-lookup specification; inconsistent sets must be rejected; the pragmatic reader's
//! profile/error-code mapping and the coordinate approximation are driven through the public readers.

use crate::*;
use serde_json::{Value, json};
use std::sync::Arc;
use vrp_core::models::common::*;
use vrp_core::models::problem::*;
use vrp_core::models::solution::Route;
use vrp_core::prelude::*;
use vrp_pragmatic::format::problem::PragmaticProblem;

/// Injective code of (profile, timestamp idx, from, to, kind): every entry is distinct, asymmetric.
fn code(profile: usize, ts_idx: usize, from: usize, to: usize, kind: usize) -> f64 {
    (1000 * (profile + 1) + 100 * (ts_idx + 1) + 10 * from + to) as f64 + if kind == 1 { 0.5 } else { 0. } + 10_000. * kind as f64
}

fn matrix(profile: usize, ts_idx: usize, n: usize, kind: usize) -> Vec<f64> {
    (0..n).flat_map(|f| (0..n).map(move |t| code(profile, ts_idx, f, t, kind))).collect()
}

fn actor_with_profile(index: usize, scale: f64) -> Arc<Actor> {
    let mut vehicle = VehicleBuilder::default()
        .id(&format!("v{index}"))
        .add_detail(VehicleDetailBuilder::default().set_start_location(0).build().unwrap())
        .build()
        .unwrap();
    vehicle.profile = Profile::new(index, Some(scale));
    let driver = Arc::new(Driver {
        costs: Costs { fixed: 0., per_distance: 0., per_driving_time: 0., per_waiting_time: 0., per_service_time: 0. },
        dimens: Default::default(),
        details: vec![],
    });
    let fleet = Fleet::new(vec![driver], vec![Arc::new(vehicle)], |_| |_| 0);
    fleet.actors[0].clone()
}

fn route_for(actor: &Arc<Actor>) -> Route {
    Route { actor: actor.clone(), tour: vrp_core::models::solution::Tour::new(actor) }
}

const TS_SETS: &[&[f64]] = &[&[], &[0., 10.], &[10., 20.], &[0., 10., 40.], &[10., 20., 40.], &[0., 10., 20., 40.]];
const QUERY_TIMES: &[f64] = &[-5., 0., 2.5, 3., 5., 10., 10.5, 12.25, 15., 19.9, 20., 25., 30., 33.3, 40., 99.];
const SCALES: &[f64] = &[1., 0.5, 2.];

fn permutations(n: usize) -> Vec<Vec<usize>> {
    fn rec(cur: &mut Vec<usize>, used: &mut Vec<bool>, out: &mut Vec<Vec<usize>>) {
        if cur.len() == used.len() {
            out.push(cur.clone());
            return;
        }
        for i in 0..used.len() {
            if !used[i] {
                used[i] = true;
                cur.push(i);
                rec(cur, used, out);
                cur.pop();
                used[i] = false;
            }
        }
    }
    let mut out = vec![];
    rec(&mut vec![], &mut vec![false; n], &mut out);
    out
}

/// Spec: expected duration (unscaled) and distance for a query.
fn spec(profile: usize, from: usize, to: usize, t: f64, ts: &[f64]) -> (SpecDur, f64) {
    if ts.is_empty() {
        return (SpecDur::Exact(code(profile, 0, from, to, 0)), code(profile, 0, from, to, 1));
    }
    let dur = |i: usize| code(profile, i, from, to, 0);
    let dist = |i: usize| code(profile, i, from, to, 1);
    if let Some(i) = ts.iter().position(|x| *x == t) {
        return (SpecDur::Exact(dur(i)), dist(i));
    }
    if t < ts[0] {
        return (SpecDur::Exact(dur(0)), dist(0));
    }
    let last = ts.len() - 1;
    if t > ts[last] {
        return (SpecDur::Exact(dur(last)), dist(last));
    }
    let r = ts.iter().position(|x| *x > t).unwrap();
    let l = r - 1;
    // linear in time; only inside the first second after a timestamp the library answers with the matrix value itself
    // (it looks the whole second up), which is accepted as "between the bracketing matrices"
    let d = if t.fract() == 0. || !ts.contains(&t.floor()) {
        let ratio = (t - ts[l]) / (ts[r] - ts[l]);
        SpecDur::Exact(dur(l) + ratio * (dur(r) - dur(l)))
    } else {
        SpecDur::Between(dur(l).min(dur(r)), dur(l).max(dur(r)))
    };
    (d, dist(l))
}

#[derive(Debug)]
enum SpecDur {
    Exact(f64),
    Between(f64, f64),
}

fn close(a: f64, b: f64) -> bool {
    (a - b).abs() <= 1e-9 * a.abs().max(b.abs()).max(1.)
}

fn run_core(ctx: &RunCtx, report: &mut Report) {
    let sizes: Vec<usize> = ctx.tier.pick(vec![1, 2, 3], vec![1, 2, 3, 4, 5]);
    let max_profiles = 3;
    let mut sets = 0u64;
    let mut queries = 0u64;
    for &n in &sizes {
        for p in 1..=max_profiles {
            for (tsi, ts) in TS_SETS.iter().enumerate() {
                let ts_count = ts.len().max(1);
                // matrix list in canonical order: (profile, ts idx)
                let canonical: Vec<(usize, usize)> = (0..p).flat_map(|pi| (0..ts_count).map(move |ti| (pi, ti))).collect();
                // input orders: canonical, reversed, every rotation; all permutations when small
                let orders: Vec<Vec<usize>> = if canonical.len() <= ctx.tier.pick(4, 6) {
                    permutations(canonical.len())
                } else {
                    let m = canonical.len();
                    let mut o = vec![(0..m).collect::<Vec<_>>(), (0..m).rev().collect()];
                    for r in 1..m {
                        o.push((0..m).map(|i| (i + r) % m).collect());
                    }
                    // interleave profiles
                    o.push((0..m).map(|i| (i * (ts_count + 1)) % m).collect::<Vec<_>>());
                    o.retain(|perm| {
                        let mut s = perm.clone();
                        s.sort();
                        s == (0..m).collect::<Vec<_>>()
                    });
                    o
                };
                for order in orders {
                    sets += 1;
                    let data: Vec<MatrixData> = order
                        .iter()
                        .map(|i| {
                            let (pi, ti) = canonical[*i];
                            MatrixData::new(pi, ts.get(ti).copied(), matrix(pi, ti, n, 0), matrix(pi, ti, n, 1))
                        })
                        .collect();
                    let scen = json!({"part": "core", "n": n, "profiles": p, "ts_set": tsi, "order": order});
                    let provider = match catch(|| create_matrix_transport_cost(data)) {
                        Ok(Ok(t)) => t,
                        Ok(Err(e)) => {
                            report.violation(Violation::new("core:consistent-set-rejected", format!("{e}"), scen));
                            continue;
                        }
                        Err(pn) => {
                            report.violation(Violation::new(format!("core:panic@{}", panic_site(&pn)), pn, scen));
                            continue;
                        }
                    };
                    if provider.size() != n {
                        report.violation(Violation::new("core:size", format!("size() = {} != {n}", provider.size()), scen.clone()));
                    }
                    for pi in 0..p {
                        for &scale in SCALES {
                            let actor = actor_with_profile(pi, scale);
                            let route = route_for(&actor);
                            let profile = Profile::new(pi, Some(scale));
                            for from in 0..n {
                                for to in 0..n {
                                    for &t in QUERY_TIMES {
                                        for is_dep in [true, false] {
                                            queries += 1;
                                            let tt = if is_dep { TravelTime::Departure(t) } else { TravelTime::Arrival(t) };
                                            let r = catch(|| (provider.duration(&route, from, to, tt), provider.distance(&route, from, to, tt)));
                                            let q = json!({"profile": pi, "scale": scale, "from": from, "to": to, "t": t, "departure": is_dep});
                                            let (dur, dist) = match r {
                                                Ok(x) => x,
                                                Err(pn) => {
                                                    report.violation(Violation::new(
                                                        format!("core:panic@{}", panic_site(&pn)),
                                                        pn,
                                                        json!({"set": scen, "query": q}),
                                                    ));
                                                    continue;
                                                }
                                            };
                                            let (sd, sdist) = spec(pi, from, to, t, ts);
                                            let ok_dur = match sd {
                                                SpecDur::Exact(v) => close(dur, v * scale),
                                                SpecDur::Between(lo, hi) => dur >= lo * scale - 1e-9 && dur <= hi * scale + 1e-9,
                                            };
                                            if !ok_dur {
                                                report.violation(Violation::new(
                                                    if ts.is_empty() { "core:duration" } else { "core:time-aware-duration" },
                                                    format!("duration {dur} != spec {sd:?} x scale {scale}"),
                                                    json!({"set": scen, "query": q}),
                                                ));
                                            }
                                            if dist != sdist {
                                                report.violation(Violation::new(
                                                    if ts.is_empty() { "core:distance" } else { "core:time-aware-distance" },
                                                    format!("distance {dist} != spec {sdist} (unscaled)"),
                                                    json!({"set": scen, "query": q}),
                                                ));
                                            }
                                        }
                                    }
                                    // approximations: time-less lookups
                                    let (da, di) = (provider.duration_approx(&profile, from, to), provider.distance_approx(&profile, from, to));
                                    let (sd, sdist) = spec(pi, from, to, 0., ts);
                                    let ok = match sd {
                                        SpecDur::Exact(v) => close(da, v * scale),
                                        SpecDur::Between(..) => true,
                                    };
                                    if !ok || di != sdist {
                                        report.violation(Violation::new(
                                            "core:approx",
                                            format!("duration_approx {da} / distance_approx {di} vs spec {sd:?} x {scale} / {sdist}"),
                                            json!({"set": scen, "query": {"profile": pi, "from": from, "to": to}}),
                                        ));
                                    }
                                }
                            }
                        }
                    }
                    if sets % 97 == 1 {
                        report.sample(scen);
                    }
                }
            }
        }
    }
    report.add_count("matrix_sets", sets);
    report.add_count("queries", queries);
    report.add_count("evaluations", queries);
}

fn run_inconsistent(report: &mut Report) {
    let m = |p: usize, ts: Option<f64>, ndur: usize, ndist: usize| {
        MatrixData::new(p, ts, (0..ndur).map(|x| x as f64).collect(), (0..ndist).map(|x| x as f64).collect())
    };
    let cases: Vec<(&str, Vec<MatrixData>)> = vec![
        ("empty set", vec![]),
        ("durations shorter than distances", vec![m(0, None, 4, 9)]),
        ("durations longer than distances", vec![m(0, None, 9, 4)]),
        ("matrices of different size (2x2 vs 3x3)", vec![m(0, None, 4, 4), m(1, None, 9, 9)]),
        ("matrices of different size (3x3 vs 1x1)", vec![m(0, None, 9, 9), m(1, None, 1, 1)]),
        ("time-aware matrices of different size", vec![m(0, Some(0.), 4, 4), m(0, Some(10.), 9, 9)]),
        ("timestamp on some matrices only", vec![m(0, Some(0.), 4, 4), m(0, None, 4, 4)]),
        ("timestamp on some matrices only (other profile)", vec![m(0, Some(0.), 4, 4), m(0, Some(10.), 4, 4), m(1, None, 4, 4)]),
        ("single matrix for a time-aware profile", vec![m(0, Some(0.), 4, 4)]),
        ("single matrix for one of time-aware profiles", vec![m(0, Some(0.), 4, 4), m(0, Some(10.), 4, 4), m(1, Some(0.), 4, 4)]),
        ("duplicate profile without timestamps", vec![m(0, None, 4, 4), m(0, None, 4, 4)]),
        ("duplicate profile without timestamps (second)", vec![m(0, None, 4, 4), m(1, None, 4, 4), m(1, None, 4, 4)]),
        ("missing profile index 0", vec![m(1, None, 4, 4)]),
        ("gap in profile indices", vec![m(0, None, 4, 4), m(2, None, 4, 4)]),
    ];
    for (name, data) in cases {
        report.add_count("inconsistent_sets", 1);
        report.add_count("evaluations", 1);
        match catch(|| create_matrix_transport_cost(data).is_err()) {
            Ok(true) => {}
            Ok(false) => report.violation(Violation::new(
                format!("core:inconsistent-accepted:{name}"),
                format!("inconsistent matrix set accepted: {name}"),
                json!({"part": "inconsistent", "case": name}),
            )),
            Err(p) => report.violation(Violation::new(
                format!("core:panic@{}", panic_site(&p)),
                format!("{name}: {p}"),
                json!({"part": "inconsistent", "case": name}),
            )),
        }
    }
}

// ---------------------------------------------------------------------------------------------
// pragmatic reader: profile names in any order, scale, error codes, timestamps

fn pragmatic_problem(profile_names: &[&str], scales: &[Option<f64>], n_locs: usize) -> Value {
    let jobs: Vec<Value> = (1..n_locs)
        .map(|i| json!({"id": format!("job{i}"), "deliveries": [{"places": [{"location": {"index": i}, "duration": 1.0}], "demand": [1]}]}))
        .collect();
    let vehicles: Vec<Value> = profile_names
        .iter()
        .zip(scales.iter())
        .enumerate()
        .map(|(i, (name, scale))| {
            let mut profile = json!({"matrix": name});
            if let Some(s) = scale {
                profile["scale"] = json!(s);
            }
            json!({
                "typeId": format!("type{i}"), "vehicleIds": [format!("veh{i}")], "profile": profile,
                "costs": {"fixed": 0.0, "distance": 1.0, "time": 1.0},
                "shifts": [{"start": {"earliest": "1970-01-01T00:00:00Z", "location": {"index": 0}}}],
                "capacity": [10]
            })
        })
        .collect();
    let profiles: Vec<Value> = profile_names.iter().map(|n| json!({"name": n})).collect();
    json!({"plan": {"jobs": jobs}, "fleet": {"vehicles": vehicles, "profiles": profiles}})
}

fn ts_string(t: f64) -> String {
    let secs = t as i64;
    format!("1970-01-01T00:{:02}:{:02}Z", secs / 60, secs % 60)
}

fn run_pragmatic(ctx: &RunCtx, report: &mut Report) {
    let n = 3usize;
    let names_all = ["car", "truck", "bike"];
    for p in 1..=3usize {
        let names = &names_all[..p];
        for (tsi, ts) in TS_SETS.iter().enumerate().take(ctx.tier.pick(3, TS_SETS.len())) {
            for scale_variant in 0..2 {
                let scales: Vec<Option<f64>> = (0..p).map(|i| if scale_variant == 0 { None } else { Some([0.5, 2., 1.5][i]) }).collect();
                let ts_count = ts.len().max(1);
                let canonical: Vec<(usize, usize)> = (0..p).flat_map(|pi| (0..ts_count).map(move |ti| (pi, ti))).collect();
                let m = canonical.len();
                let mut orders = vec![(0..m).collect::<Vec<_>>(), (0..m).rev().collect::<Vec<_>>()];
                if m <= 4 {
                    orders = permutations(m);
                }
                for order in orders {
                    for with_errors in [false, true] {
                        report.add_count("pragmatic_sets", 1);
                        let matrices: Vec<String> = order
                            .iter()
                            .map(|i| {
                                let (pi, ti) = canonical[*i];
                                // integer entries (the format stores integers): drop the .5 of distance codes
                                let tt: Vec<i64> = matrix(pi, ti, n, 0).iter().map(|x| *x as i64).collect();
                                let dd: Vec<i64> = matrix(pi, ti, n, 1).iter().map(|x| *x as i64).collect();
                                let mut mj = json!({"profile": names[pi], "travelTimes": tt, "distances": dd});
                                if let Some(t) = ts.get(ti) {
                                    mj["timestamp"] = json!(ts_string(*t));
                                }
                                if with_errors {
                                    // mark (1 -> 2) unreachable
                                    let mut codes = vec![0; n * n];
                                    codes[n + 2] = 1;
                                    mj["errorCodes"] = json!(codes);
                                }
                                mj.to_string()
                            })
                            .collect();
                        let problem = pragmatic_problem(names, &scales, n);
                        let scen = json!({"part": "pragmatic", "profiles": p, "ts_set": tsi, "scales": scales, "order": order, "errors": with_errors});
                        let core = match catch(|| (problem.to_string(), matrices).read_pragmatic()) {
                            Ok(Ok(c)) => c,
                            Ok(Err(e)) => {
                                report.violation(Violation::new("pragmatic:consistent-set-rejected", format!("{e}"), scen));
                                continue;
                            }
                            Err(pn) => {
                                report.violation(Violation::new(format!("pragmatic:panic@{}", panic_site(&pn)), pn, scen));
                                continue;
                            }
                        };
                        for actor in core.fleet.actors.iter() {
                            let vid = actor.vehicle.dimens.get_vehicle_id().cloned().unwrap_or_default();
                            let pi: usize = vid.trim_start_matches("veh").parse().unwrap_or(0);
                            let scale = scales[pi].unwrap_or(1.);
                            let route = route_for(actor);
                            for from in 0..n {
                                for to in 0..n {
                                    for &t in QUERY_TIMES {
                                        report.add_count("queries", 1);
                                        report.add_count("evaluations", 1);
                                        let tt = TravelTime::Departure(t);
                                        let r = catch(|| (core.transport.duration(&route, from, to, tt), core.transport.distance(&route, from, to, tt)));
                                        let q = json!({"vehicle": vid, "from": from, "to": to, "t": t});
                                        let Ok((dur, dist)) = r else {
                                            report.violation(Violation::new("pragmatic:panic-in-query", format!("{:?}", r.err()), json!({"set": scen, "query": q})));
                                            continue;
                                        };
                                        if with_errors && from == 1 && to == 2 {
                                            if !(dur < 0. && dist < 0.) {
                                                report.violation(Violation::new(
                                                    "pragmatic:unreachable-not-negative",
                                                    format!("flagged entry gives duration {dur}, distance {dist}"),
                                                    json!({"set": scen, "query": q}),
                                                ));
                                            }
                                            continue;
                                        }
                                        // integer matrices: recompute spec from truncated codes
                                        let ic = |ti: usize, kind: usize| code(pi, ti, from, to, kind).trunc();
                                        let (exp_dur, exp_dist): (Option<f64>, f64) = if ts.is_empty() {
                                            (Some(ic(0, 0)), ic(0, 1))
                                        } else if let Some(i) = ts.iter().position(|x| *x == t) {
                                            (Some(ic(i, 0)), ic(i, 1))
                                        } else if t < ts[0] {
                                            (Some(ic(0, 0)), ic(0, 1))
                                        } else if t > ts[ts.len() - 1] {
                                            (Some(ic(ts.len() - 1, 0)), ic(ts.len() - 1, 1))
                                        } else {
                                            let r = ts.iter().position(|x| *x > t).unwrap();
                                            let l = r - 1;
                                            let d = if t.fract() == 0. {
                                                Some(ic(l, 0) + (t - ts[l]) / (ts[r] - ts[l]) * (ic(r, 0) - ic(l, 0)))
                                            } else {
                                                None
                                            };
                                            (d, ic(l, 1))
                                        };
                                        if let Some(e) = exp_dur {
                                            if !close(dur, e * scale) {
                                                report.violation(Violation::new(
                                                    "pragmatic:duration",
                                                    format!("duration {dur} != {e} x scale {scale}"),
                                                    json!({"set": scen, "query": q}),
                                                ));
                                            }
                                        }
                                        if dist != exp_dist {
                                            report.violation(Violation::new(
                                                "pragmatic:distance",
                                                format!("distance {dist} != {exp_dist}"),
                                                json!({"set": scen, "query": q}),
                                            ));
                                        }
                                    }
                                }
                            }
                        }
                        if report.get_count("pragmatic_sets") % 41 == 1 {
                            report.sample(scen);
                        }
                    }
                }
            }
        }
    }
}

// ---------------------------------------------------------------------------------------------
// coordinate approximation through the pragmatic reader (no matrices)

fn run_approx(report: &mut Report) {
    let coords: [(f64, f64); 12] = [
        (0., 0.),
        (52.5, 13.4),
        (52.5, 13.5),
        (-33.9, 151.2),
        (89.9, 0.),
        (-89.9, 45.),
        (0., 179.9),
        (0., -179.9),
        (10., 179.99),
        (10., -179.99),
        (45., -90.),
        (52.5001, 13.4001),
    ];
    // job i at coordinate i (1..), depot at coordinate 0; plus one job at a custom unknown location
    let mut jobs: Vec<Value> = (1..coords.len())
        .map(|i| {
            json!({"id": format!("job{i}"), "deliveries": [{"places": [{"location": {"lat": coords[i].0, "lng": coords[i].1}, "duration": 1.0}], "demand": [1]}]})
        })
        .collect();
    jobs.push(json!({"id": "unknown", "deliveries": [{"places": [{"location": {"type": "unknown"}, "duration": 1.0}], "demand": [1]}]}));
    let problem = json!({
        "plan": {"jobs": jobs},
        "fleet": {
            "vehicles": [{
                "typeId": "t", "vehicleIds": ["v"], "profile": {"matrix": "car"},
                "costs": {"fixed": 0.0, "distance": 1.0, "time": 1.0},
                "shifts": [{"start": {"earliest": "1970-01-01T00:00:00Z", "location": {"lat": coords[0].0, "lng": coords[0].1}}}],
                "capacity": [100]
            }],
            "profiles": [{"name": "car", "speed": 10.0}]
        }
    });
    let core = match catch(|| problem.to_string().read_pragmatic()) {
        Ok(Ok(c)) => c,
        Ok(Err(e)) => {
            report.violation(Violation::new("approx:rejected", format!("{e}"), json!({"part": "approx"})));
            return;
        }
        Err(p) => {
            report.violation(Violation::new(format!("approx:panic@{}", panic_site(&p)), p, json!({"part": "approx"})));
            return;
        }
    };
    let n = core.transport.size();
    let profile = Profile::default();
    let mut nonzero = 0;
    for a in 0..n {
        for b in 0..n {
            report.add_count("approx_pairs", 1);
            report.add_count("evaluations", 1);
            let r = catch(|| {
                (
                    core.transport.distance_approx(&profile, a, b),
                    core.transport.distance_approx(&profile, b, a),
                    core.transport.duration_approx(&profile, a, b),
                    core.transport.duration_approx(&profile, b, a),
                )
            });
            let scen = json!({"part": "approx", "from": a, "to": b});
            match r {
                Ok((dab, dba, tab, tba)) => {
                    if dab != dba || tab != tba {
                        report.violation(Violation::new("approx:asymmetric", format!("d({a},{b})={dab} d({b},{a})={dba} t={tab}/{tba}"), scen.clone()));
                    }
                    if a == b && (dab != 0. || tab != 0.) {
                        report.violation(Violation::new("approx:diagonal", format!("d({a},{a})={dab} t={tab}"), scen.clone()));
                    }
                    if !(dab.is_finite() && tab.is_finite()) || dab < 0. || tab < 0. {
                        report.violation(Violation::new("approx:not-finite", format!("d={dab} t={tab}"), scen));
                    }
                    if dab > 0. {
                        nonzero += 1;
                    }
                }
                Err(p) => report.violation(Violation::new(format!("approx:panic@{}", panic_site(&p)), p, scen)),
            }
        }
    }
    if n != coords.len() + 1 && n != coords.len() {
        report.error(format!("approx: expected {} unique locations, transport has {n}", coords.len() + 1));
    }
    if nonzero < n {
        report.error("approx: vacuous (no non-zero distances)".to_string());
    }
    report.sample(json!({"approx_locations": n, "nonzero_pairs": nonzero}));
}

// scientific Euclidean index
fn run_scientific(report: &mut Report) {
    use vrp_scientific::common::CoordIndex;
    let pts: Vec<(i32, i32)> = vec![(0, 0), (3, 4), (7, 0), (0, 7), (4, 3), (-3, -4), (100, 100)];
    for rounded in [false, true] {
        let mut index = CoordIndex::default();
        for p in &pts {
            index.collect(*p);
        }
        // duplicates map to the same index
        if index.collect((3, 4)) != 1 || index.locations.len() != pts.len() {
            report.violation(Violation::new("scientific:coord-index", "duplicate coordinate got a new index", json!({"part": "scientific"})));
        }
        let logger: InfoLogger = Arc::new(|_| {});
        let Ok(Ok(t)) = catch(|| index.create_transport(rounded, &logger)) else {
            report.violation(Violation::new("scientific:create-transport", "failed", json!({"part": "scientific", "rounded": rounded})));
            continue;
        };
        let profile = Profile::default();
        for (a, pa) in pts.iter().enumerate() {
            for (b, pb) in pts.iter().enumerate() {
                report.add_count("scientific_pairs", 1);
                report.add_count("evaluations", 1);
                let dx = (pa.0 - pb.0) as f64;
                let dy = (pa.1 - pb.1) as f64;
                let e = (dx * dx + dy * dy).sqrt();
                let e = if rounded { e.round() } else { e };
                let got = (t.distance_approx(&profile, a, b), t.duration_approx(&profile, a, b));
                if got.0 != e || got.1 != e {
                    report.violation(Violation::new(
                        "scientific:euclidean",
                        format!("({a},{b}) -> {got:?}, expected {e}"),
                        json!({"part": "scientific", "rounded": rounded, "from": a, "to": b}),
                    ));
                }
            }
        }
    }
}

pub fn run(ctx: &RunCtx) -> Report {
    let mut report = Report::new("exploration");
    run_core(ctx, &mut report);
    run_inconsistent(&mut report);
    run_pragmatic(ctx, &mut report);
    run_approx(&mut report);
    run_scientific(&mut report);
    let distinct = report.get_count("matrix_sets") + report.get_count("pragmatic_sets") + report.get_count("inconsistent_sets");
    report.set("distinct_nontrivial", distinct);
    report.set("exhaustive", true);
    report.set(
        "rule",
        "every matrix set in sizes x profiles(1-3) x timestamp sets x input orders with injective entry codes, every (profile, scale, from, to, t, \
         departure/arrival) query compared with a table-lookup spec; 14 inconsistent sets must be rejected; pragmatic reader with profile names in \
         every order, scales, error codes, timestamps; coordinate approximation over 13 locations; distinct = matrix sets (each differs in shape or order)",
    );
    report.assume("non-integral query times inside a bracket are only required to lie between the bracketing values");
    report.assume("matrix lengths are perfect squares; non-square lengths are outside the alphabet");
    report
}

pub fn replay(ctx: &RunCtx, _scenario: &Value) -> Result<Vec<Violation>, String> {
    // the whole check is deterministic and takes seconds: re-run it and report whatever reproduces
    Ok(run(ctx).violations)
}
