//! C14 — tours and the vehicle registry stay well-formed under any operation sequence.
//!
//! Explicit-state BFS over operation histories on the real `Tour`, `Registry`, `RegistryContext` and
//! `RouteContext`; every state is rebuilt from scratch by replaying its history (so `deep_copy` is a
//! checked operation, not a trusted tool), compared with a `Vec`/set reference model.

use crate::*;
use serde_json::{Value, json};
use std::collections::{BTreeSet, HashSet, VecDeque};
use std::sync::Arc;
use vrp_core::construction::heuristics::{RegistryContext, RouteContext};
use vrp_core::models::common::*;
use vrp_core::models::problem::*;
use vrp_core::models::solution::{Activity, Registry, Tour};
use vrp_core::prelude::*;

// ------------------------------------------------------------------------------------------
// fixtures

pub struct Fixture {
    pub fleet: Fleet,
    /// S1, S2, M (multi of m1, m2)
    pub jobs: Vec<Job>,
    /// activity alphabet: (label, single, owning job index)
    pub acts: Vec<(&'static str, Arc<Single>, usize)>,
}

fn driver() -> Arc<Driver> {
    Arc::new(Driver {
        costs: Costs { fixed: 0., per_distance: 0., per_driving_time: 0., per_waiting_time: 0., per_service_time: 0. },
        dimens: Default::default(),
        details: vec![],
    })
}

/// Fleet: vehicles given as (id, closed, group, number of identical details).
pub fn fleet(spec: &[(&str, bool, usize, usize)]) -> Fleet {
    let vehicles = spec
        .iter()
        .map(|(id, closed, _, details)| {
            let mut builder = VehicleBuilder::default().id(id).capacity(SingleDimLoad::new(10));
            for _ in 0..*details {
                let mut detail = VehicleDetailBuilder::default().set_start_location(0);
                if *closed {
                    detail = detail.set_end_location(0);
                }
                builder = builder.add_detail(detail.build().unwrap());
            }
            Arc::new(builder.build().unwrap())
        })
        .collect::<Vec<_>>();
    let groups: Vec<(String, usize)> = spec.iter().map(|(id, _, g, _)| (id.to_string(), *g)).collect();
    Fleet::new(vec![driver()], vehicles, move |_| {
        let groups = groups.clone();
        move |actor: &Actor| {
            let id = actor.vehicle.dimens.get_vehicle_id().unwrap();
            groups.iter().find(|(v, _)| v == id).map(|(_, g)| *g).unwrap()
        }
    })
}

fn fixture(closed: bool) -> Fixture {
    let s1 = SingleBuilder::default().id("S1").location(1).unwrap().build().unwrap();
    let s2 = SingleBuilder::default().id("S2").location(2).unwrap().build().unwrap();
    let m1 = SingleBuilder::default().id("m1").location(3).unwrap().build().unwrap();
    let m2 = SingleBuilder::default().id("m2").location(4).unwrap().build().unwrap();
    let multi = MultiBuilder::default().id("M").add_job(m1).add_job(m2).build().unwrap();
    let (s1, s2) = (Arc::new(s1), Arc::new(s2));
    let acts = vec![
        ("S1", s1.clone(), 0),
        ("S2", s2.clone(), 1),
        ("m1", multi.jobs[0].clone(), 2),
        ("m2", multi.jobs[1].clone(), 2),
    ];
    let jobs = vec![Job::Single(s1), Job::Single(s2), Job::Multi(multi)];
    Fixture { fleet: fleet(&[("v1", closed, 0, 1)]), jobs, acts }
}

// ------------------------------------------------------------------------------------------
// tour operations and reference model

#[derive(Clone, Copy, Debug, PartialEq, Eq)]
enum TourOp {
    InsertAt(usize, usize),
    InsertLast(usize),
    Remove(usize),
    RemoveAt(usize),
}

impl TourOp {
    fn to_json(self) -> Value {
        match self {
            TourOp::InsertAt(a, i) => json!(["insert_at", a, i]),
            TourOp::InsertLast(a) => json!(["insert_last", a]),
            TourOp::Remove(j) => json!(["remove", j]),
            TourOp::RemoveAt(i) => json!(["remove_activity_at", i]),
        }
    }
    fn from_json(v: &Value) -> Option<Self> {
        let a = v.as_array()?;
        let n = |i: usize| a.get(i).and_then(|x| x.as_u64()).map(|x| x as usize);
        Some(match a.first()?.as_str()? {
            "insert_at" => TourOp::InsertAt(n(1)?, n(2)?),
            "insert_last" => TourOp::InsertLast(n(1)?),
            "remove" => TourOp::Remove(n(1)?),
            "remove_activity_at" => TourOp::RemoveAt(n(1)?),
            _ => return None,
        })
    }
}

/// Reference model: job activities only (labels index into the alphabet); depot ends are implied.
#[derive(Clone, Debug, PartialEq, Eq, Hash, Default)]
struct TourModel {
    seq: Vec<usize>,
}

impl TourModel {
    fn apply(&mut self, op: TourOp, fx: &Fixture) {
        match op {
            TourOp::InsertAt(a, i) => self.seq.insert(i - 1, a),
            TourOp::InsertLast(a) => self.seq.push(a),
            TourOp::Remove(j) => self.seq.retain(|a| fx.acts[*a].2 != j),
            TourOp::RemoveAt(i) => {
                let j = fx.acts[self.seq[i - 1]].2;
                self.seq.retain(|a| fx.acts[*a].2 != j)
            }
        }
    }
    fn enabled(&self, fx: &Fixture) -> Vec<TourOp> {
        let mut ops = vec![];
        for a in 0..fx.acts.len() {
            // the library itself places a task at most once, the tour API does not forbid a second copy: one repetition is
            // part of the alphabet (removing the job takes every copy out)
            if self.seq.iter().filter(|x| **x == a).count() >= 2 || (self.seq.contains(&a) && self.seq.len() >= 3) {
                continue;
            }
            for i in 1..=self.seq.len() + 1 {
                ops.push(TourOp::InsertAt(a, i));
            }
            ops.push(TourOp::InsertLast(a));
        }
        for j in 0..fx.jobs.len() {
            ops.push(TourOp::Remove(j));
        }
        for i in 1..=self.seq.len() {
            ops.push(TourOp::RemoveAt(i));
        }
        ops
    }
}

fn apply_tour(tour: &mut Tour, op: TourOp, fx: &Fixture) -> Option<Value> {
    match op {
        TourOp::InsertAt(a, i) => {
            tour.insert_at(Activity::new_with_job(fx.acts[a].1.clone()), i);
            None
        }
        TourOp::InsertLast(a) => {
            tour.insert_last(Activity::new_with_job(fx.acts[a].1.clone()));
            None
        }
        TourOp::Remove(j) => Some(json!(tour.remove(&fx.jobs[j]))),
        TourOp::RemoveAt(i) => {
            let job = tour.remove_activity_at(i);
            Some(json!(fx.jobs.iter().position(|j| *j == job)))
        }
    }
}

fn label_of(act: &Activity, fx: &Fixture) -> String {
    match act.job.as_ref() {
        None => "depot".to_string(),
        Some(single) => fx
            .acts
            .iter()
            .find(|(_, s, _)| Arc::ptr_eq(s, single))
            .map(|(l, _, _)| l.to_string())
            .unwrap_or_else(|| "?".to_string()),
    }
}

/// Observable rendering of implementation state: used both as BFS key and for copy-independence checks.
fn observe_tour(tour: &Tour, fx: &Fixture) -> String {
    let acts = tour.all_activities().map(|a| label_of(a, fx)).collect::<Vec<_>>().join(",");
    let mut jobs = tour.jobs().filter_map(|j| fx.jobs.iter().position(|x| x == j)).collect::<Vec<_>>();
    jobs.sort();
    format!("[{acts}] jobs={jobs:?} total={} jac={} jc={}", tour.total(), tour.job_activity_count(), tour.job_count())
}

/// Compares the real tour against the model; returns list of differences.
fn check_tour(tour: &Tour, model: &TourModel, closed: bool, fx: &Fixture) -> Vec<String> {
    let mut errs = vec![];
    let mut expected: Vec<String> = vec!["depot".into()];
    expected.extend(model.seq.iter().map(|a| fx.acts[*a].0.to_string()));
    if closed {
        expected.push("depot".into());
    }
    let actual: Vec<String> = tour.all_activities().map(|a| label_of(a, fx)).collect();
    if actual != expected {
        errs.push(format!("activities {actual:?} != model {expected:?}"));
        return errs;
    }
    let n = expected.len();
    // depot ends in place
    if tour.start().is_none_or(|a| a.job.is_some()) {
        errs.push("start is not the depot activity".into());
    }
    if closed && tour.end().is_none_or(|a| a.job.is_some()) {
        errs.push("end is not the depot activity (closed)".into());
    }
    if !closed && n > 1 && tour.end().is_none_or(|a| a.job.is_none()) {
        errs.push("end of an open tour with jobs must be the last job activity".into());
    }
    if tour.end_idx() != Some(n - 1) {
        errs.push(format!("end_idx {:?} != {}", tour.end_idx(), n - 1));
    }
    // counts
    let model_jobs: BTreeSet<usize> = model.seq.iter().map(|a| fx.acts[*a].2).collect();
    let impl_jobs: BTreeSet<usize> = tour.jobs().filter_map(|j| fx.jobs.iter().position(|x| x == j)).collect();
    if tour.jobs().count() != impl_jobs.len() {
        errs.push("jobs() yields unknown or duplicate jobs".into());
    }
    if impl_jobs != model_jobs {
        errs.push(format!("jobs() {impl_jobs:?} != jobs of activities {model_jobs:?}"));
    }
    if tour.job_count() != model_jobs.len() {
        errs.push(format!("job_count {} != {}", tour.job_count(), model_jobs.len()));
    }
    if tour.job_activity_count() != model.seq.len() {
        errs.push(format!("job_activity_count {} != {}", tour.job_activity_count(), model.seq.len()));
    }
    if tour.total() != n {
        errs.push(format!("total {} != {}", tour.total(), n));
    }
    if tour.has_jobs() != !model_jobs.is_empty() {
        errs.push(format!("has_jobs {} wrong", tour.has_jobs()));
    }
    for (j, job) in fx.jobs.iter().enumerate() {
        let inside = model_jobs.contains(&j);
        if tour.contains(job) != inside || tour.has_job(job) != inside {
            errs.push(format!("contains/has_job({j}) != {inside}"));
        }
        let first = expected.iter().position(|l| fx.acts.iter().any(|(al, _, aj)| al == l && *aj == j));
        let last = expected.iter().rposition(|l| fx.acts.iter().any(|(al, _, aj)| al == l && *aj == j));
        if tour.index(job) != first {
            errs.push(format!("index({j}) {:?} != {first:?}", tour.index(job)));
        }
        if tour.index_last(job) != last {
            errs.push(format!("index_last({j}) {:?} != {last:?}", tour.index_last(job)));
        }
        let cnt = model.seq.iter().filter(|a| fx.acts[**a].2 == j).count();
        if tour.job_activities(job).count() != cnt {
            errs.push(format!("job_activities({j}) count {} != {cnt}", tour.job_activities(job).count()));
        }
    }
    for i in 0..n {
        if tour.get(i).map(|a| label_of(a, fx)).as_deref() != Some(expected[i].as_str()) || label_of(&tour[i], fx) != expected[i] {
            errs.push(format!("get({i})/index[{i}] mismatch"));
        }
    }
    if tour.get(n).is_some() {
        errs.push("get(len) is Some".into());
    }
    let slice: Vec<String> = tour.activities_slice(0, n - 1).iter().map(|a| label_of(a, fx)).collect();
    if slice != expected {
        errs.push("activities_slice(0,last) mismatch".into());
    }
    // legs
    let mut exp_legs: Vec<(Vec<String>, usize)> = vec![];
    if n == 1 {
        exp_legs.push((vec![expected[0].clone()], 0));
    } else {
        for i in 0..n - 1 {
            exp_legs.push((vec![expected[i].clone(), expected[i + 1].clone()], i));
        }
        if !closed {
            exp_legs.push((vec![expected[n - 1].clone()], n - 1));
        }
    }
    let legs: Vec<(Vec<String>, usize)> =
        tour.legs().map(|(acts, idx)| (acts.iter().map(|a| label_of(a, fx)).collect(), idx)).collect();
    if legs != exp_legs {
        errs.push(format!("legs {legs:?} != {exp_legs:?}"));
    }
    errs
}

fn build_tour(history: &[TourOp], closed: bool, fx: &Fixture) -> Result<(Tour, TourModel, Vec<String>), String> {
    let actor = fx.fleet.actors[0].clone();
    catch(|| {
        let mut tour = Tour::new(&actor);
        let mut model = TourModel::default();
        let mut errs = vec![];
        for op in history {
            let before = model.clone();
            let ret = apply_tour(&mut tour, *op, fx);
            model.apply(*op, fx);
            // return values
            match (op, ret) {
                (TourOp::Remove(j), Some(r)) => {
                    let was = before.seq.iter().any(|a| fx.acts[*a].2 == *j);
                    if r != json!(was) {
                        errs.push(format!("remove({j}) returned {r}, expected {was}"));
                    }
                }
                (TourOp::RemoveAt(i), Some(r)) => {
                    let j = fx.acts[before.seq[*i - 1]].2;
                    if r != json!(j) {
                        errs.push(format!("remove_activity_at({i}) returned job {r}, expected {j}"));
                    }
                }
                _ => {}
            }
        }
        errs.extend(check_tour(&tour, &model, closed, fx));
        (tour, model, errs)
    })
}

fn tour_scenario(history: &[TourOp], closed: bool, extra: Value) -> Value {
    json!({"part": "tour", "closed": closed, "history": history.iter().map(|o| o.to_json()).collect::<Vec<_>>(), "extra": extra})
}

fn run_tour_bfs(depth: usize, closed: bool, report: &mut Report) {
    let fx = fixture(closed);
    let mut seen: HashSet<String> = HashSet::new();
    let mut frontier: VecDeque<Vec<TourOp>> = VecDeque::new();
    frontier.push_back(vec![]);
    seen.insert(observe_tour(&Tour::new(&fx.fleet.actors[0]), &fx));
    let (mut states, mut transitions, mut copies) = (1u64, 0u64, 0u64);
    let mut max_depth = 0;
    while let Some(hist) = frontier.pop_front() {
        max_depth = max_depth.max(hist.len());
        let Ok((tour, model, _)) = build_tour(&hist, closed, &fx) else { continue };
        // deep copy independence at this state: every single op on the copy leaves the original alone and v.v.
        let snapshot = observe_tour(&tour, &fx);
        for op in model.enabled(&fx) {
            let r = catch(|| {
                let mut copy = tour.deep_copy();
                let mut errs = vec![];
                if observe_tour(&copy, &fx) != snapshot {
                    errs.push("deep_copy differs from original".to_string());
                }
                apply_tour(&mut copy, op, &fx);
                if observe_tour(&tour, &fx) != snapshot {
                    errs.push(format!("op {op:?} on the copy changed the original"));
                }
                let mut m2 = model.clone();
                m2.apply(op, &fx);
                errs.extend(check_tour(&copy, &m2, closed, &fx).into_iter().map(|e| format!("copy after {op:?}: {e}")));
                // and the other way round
                let (mut orig2, _, _) = build_tour(&hist, closed, &fx).map_err(|e| e).unwrap();
                let copy2 = orig2.deep_copy();
                apply_tour(&mut orig2, op, &fx);
                if observe_tour(&copy2, &fx) != snapshot {
                    errs.push(format!("op {op:?} on the original changed the copy"));
                }
                errs
            });
            copies += 1;
            match r {
                Ok(errs) if errs.is_empty() => {}
                Ok(errs) => report.violation(Violation::new(
                    "tour:copy-independence",
                    errs.join("; "),
                    tour_scenario(&hist, closed, json!({"copy_op": op.to_json()})),
                )),
                Err(p) => report.violation(Violation::new(
                    format!("tour:panic@{}", panic_site(&p)),
                    p,
                    tour_scenario(&hist, closed, json!({"copy_op": op.to_json()})),
                )),
            }
        }
        if hist.len() >= depth {
            continue;
        }
        for op in model.enabled(&fx) {
            let mut next = hist.clone();
            next.push(op);
            transitions += 1;
            match build_tour(&next, closed, &fx) {
                Ok((t, _, errs)) => {
                    if !errs.is_empty() {
                        report.violation(Violation::new("tour:model-mismatch", errs.join("; "), tour_scenario(&next, closed, Value::Null)));
                        continue;
                    }
                    let key = observe_tour(&t, &fx);
                    if seen.insert(key) {
                        states += 1;
                        if states % 997 == 0 {
                            report.sample(tour_scenario(&next, closed, Value::Null));
                        }
                        frontier.push_back(next);
                    }
                }
                Err(p) => report.violation(Violation::new(format!("tour:panic@{}", panic_site(&p)), p, tour_scenario(&next, closed, Value::Null))),
            }
        }
    }
    report.add_count("states", states);
    report.add_count("transitions", transitions);
    report.add_count("tour_states", states);
    report.add_count("copy_independence_checks", copies);
    report.add_count("traces_validated_against_impl", transitions + copies);
    report.set(if closed { "tour_depth_closed" } else { "tour_depth_open" }, max_depth as u64);
}

// ------------------------------------------------------------------------------------------
// registry

#[derive(Clone, Copy, Debug, PartialEq, Eq)]
enum RegOp {
    Use(usize),
    Free(usize),
    GetRoute(usize),
    UseRoute(usize),
    FreeRoute(usize),
}

impl RegOp {
    fn to_json(self) -> Value {
        match self {
            RegOp::Use(a) => json!(["use_actor", a]),
            RegOp::Free(a) => json!(["free_actor", a]),
            RegOp::GetRoute(a) => json!(["get_route", a]),
            RegOp::UseRoute(a) => json!(["use_route", a]),
            RegOp::FreeRoute(a) => json!(["free_route", a]),
        }
    }
    fn from_json(v: &Value) -> Option<Self> {
        let a = v.as_array()?;
        let n = a.get(1)?.as_u64()? as usize;
        Some(match a.first()?.as_str()? {
            "use_actor" => RegOp::Use(n),
            "free_actor" => RegOp::Free(n),
            "get_route" => RegOp::GetRoute(n),
            "use_route" => RegOp::UseRoute(n),
            "free_route" => RegOp::FreeRoute(n),
            _ => return None,
        })
    }
}

const FLEETS: &[&[(&str, bool, usize, usize)]] = &[
    &[("a", true, 0, 1)],
    &[("a", true, 0, 1), ("b", false, 0, 1)],
    &[("a", true, 0, 1), ("b", false, 1, 1)],
    &[("a", true, 0, 1), ("b", true, 0, 1), ("c", false, 1, 1)],
    &[("a", true, 0, 1), ("b", true, 0, 1), ("c", false, 0, 1)],
    // one vehicle with two identical shifts: two actors which are structurally equal
    &[("a", true, 0, 2)],
    &[("a", true, 0, 2), ("b", false, 1, 1)],
];

fn trivial_goal() -> GoalContext {
    let feature = MinimizeUnassignedBuilder::new("min-unassigned").build().unwrap();
    GoalContextBuilder::with_features(&[feature]).unwrap().build().unwrap()
}

fn actor_idx(fleet: &Fleet, actor: &Arc<Actor>) -> usize {
    fleet.actors.iter().position(|a| Arc::ptr_eq(a, actor)).unwrap_or(usize::MAX)
}

fn available_set(reg: &Registry, fleet: &Fleet) -> (Vec<usize>, bool) {
    let mut v: Vec<usize> = reg.available().map(|a| actor_idx(fleet, &a)).collect();
    let n = v.len();
    v.sort();
    v.dedup();
    (v.clone(), v.len() == n)
}

/// Applies op to RegistryContext and the model `in_use`; returns mismatch description if return value differs.
fn apply_reg(ctx: &mut RegistryContext, in_use: &mut BTreeSet<usize>, op: RegOp, fleet: &Fleet) -> Option<String> {
    let actor = |i: usize| fleet.actors[i].clone();
    match op {
        RegOp::Use(a) => {
            // Registry is owned by the context; drive the raw registry through a slice copy and the context through use_route
            let expected = !in_use.contains(&a);
            let rc = RouteContext::new(actor(a));
            let got = ctx.use_route(&rc);
            in_use.insert(a);
            (got != expected).then(|| format!("use({a}) returned {got}, expected {expected}"))
        }
        RegOp::UseRoute(a) => {
            let expected = !in_use.contains(&a);
            let rc = RouteContext::new(actor(a));
            let got = ctx.use_route(&rc);
            in_use.insert(a);
            (got != expected).then(|| format!("use_route({a}) returned {got}, expected {expected}"))
        }
        RegOp::Free(a) | RegOp::FreeRoute(a) => {
            let expected = in_use.contains(&a);
            let got = ctx.free_route(RouteContext::new(actor(a)));
            in_use.remove(&a);
            (got != expected).then(|| format!("free_route({a}) returned {got}, expected {expected}"))
        }
        RegOp::GetRoute(a) => {
            let expected = !in_use.contains(&a);
            let got = ctx.get_route(&actor(a));
            in_use.insert(a);
            match (&got, expected) {
                (Some(rc), true) => {
                    if !Arc::ptr_eq(&rc.route().actor, &fleet.actors[a]) {
                        return Some(format!("get_route({a}) handed out a route of another actor"));
                    }
                    if rc.route().tour.has_jobs() {
                        return Some(format!("get_route({a}) handed out a non-empty route"));
                    }
                    None
                }
                (None, false) => None,
                _ => Some(format!("get_route({a}) is_some={}, expected {expected}", got.is_some())),
            }
        }
    }
}

fn check_reg(ctx: &RegistryContext, in_use: &BTreeSet<usize>, fleet: &Fleet, groups: &[usize]) -> Vec<String> {
    let mut errs = vec![];
    let reg = ctx.resources();
    let (avail, unique) = available_set(reg, fleet);
    let expected: Vec<usize> = (0..fleet.actors.len()).filter(|a| !in_use.contains(a)).collect();
    if !unique {
        errs.push("available() lists an actor twice".into());
    }
    if avail != expected {
        errs.push(format!("available {avail:?} != all - in_use {expected:?}"));
    }
    let all: Vec<usize> = reg.all().map(|a| actor_idx(fleet, &a)).collect();
    if all != (0..fleet.actors.len()).collect::<Vec<_>>() {
        errs.push(format!("all() {all:?} wrong"));
    }
    // next(): one available actor per group which has any
    let next: Vec<usize> = reg.next().map(|a| actor_idx(fleet, &a)).collect();
    let mut next_groups: Vec<usize> = next.iter().map(|a| groups[*a]).collect();
    next_groups.sort();
    let mut exp_groups: Vec<usize> = expected.iter().map(|a| groups[*a]).collect();
    exp_groups.sort();
    exp_groups.dedup();
    if next_groups != exp_groups || next.iter().any(|a| in_use.contains(a)) {
        errs.push(format!("next() {next:?} (groups {next_groups:?}) != one available per group {exp_groups:?}"));
    }
    let next_routes: Vec<usize> = ctx.next_route().map(|rc| actor_idx(fleet, &rc.route().actor)).collect();
    if next_routes.iter().any(|a| in_use.contains(a)) || next_routes.len() != exp_groups.len() {
        errs.push(format!("next_route() {next_routes:?} offers a used actor or wrong amount"));
    }
    errs
}

fn reg_scenario(fleet_idx: usize, history: &[RegOp], extra: Value) -> Value {
    json!({"part": "registry", "fleet": fleet_idx, "history": history.iter().map(|o| o.to_json()).collect::<Vec<_>>(), "extra": extra})
}

fn build_reg(fleet: &Fleet, history: &[RegOp], goal: &GoalContext, random: Arc<dyn Random>) -> Result<(RegistryContext, BTreeSet<usize>, Vec<String>), String> {
    catch(|| {
        let mut ctx = RegistryContext::new(goal, Registry::new(fleet, random));
        let mut in_use = BTreeSet::new();
        let mut errs = vec![];
        for op in history {
            if let Some(e) = apply_reg(&mut ctx, &mut in_use, *op, fleet) {
                errs.push(e);
            }
        }
        (ctx, in_use, errs)
    })
}

fn reg_ops(n: usize) -> Vec<RegOp> {
    let mut ops = vec![];
    for a in 0..n {
        ops.extend([RegOp::Use(a), RegOp::Free(a), RegOp::GetRoute(a)]);
    }
    ops
}

fn run_registry_bfs(depth: usize, fleet_idx: usize, report: &mut Report) {
    let spec = FLEETS[fleet_idx];
    let fleet = fleet(spec);
    let groups: Vec<usize> = fleet
        .actors
        .iter()
        .map(|a| spec.iter().find(|(id, _, _, _)| Some(&id.to_string()) == a.vehicle.dimens.get_vehicle_id()).unwrap().2)
        .collect();
    let goal = trivial_goal();
    let n = fleet.actors.len();
    // the random source of `next()` is a choice point: run the invariants under every answer policy
    let randoms: Vec<(&str, Arc<dyn Random>)> = vec![
        ("default", Arc::new(crate::env::ScriptedRandom::new(vec![], crate::env::Fallback::Default))),
        ("last", Arc::new(crate::env::ScriptedRandom::new(vec![1; 64], crate::env::Fallback::Default))),
        ("stream", Arc::new(crate::env::ScriptedRandom::new(vec![], crate::env::Fallback::Stream(7)))),
    ];
    let mut seen: HashSet<Vec<usize>> = HashSet::new();
    let mut frontier: VecDeque<Vec<RegOp>> = VecDeque::new();
    frontier.push_back(vec![]);
    seen.insert(vec![]);
    let (mut states, mut transitions, mut derived) = (1u64, 0u64, 0u64);
    while let Some(hist) = frontier.pop_front() {
        for (rname, random) in &randoms {
            match build_reg(&fleet, &hist, &goal, random.clone()) {
                Ok((ctx, in_use, mut errs)) => {
                    errs.extend(check_reg(&ctx, &in_use, &fleet, &groups));
                    // copies: deep_copy and deep_slice are independent of the original
                    let r = catch(|| {
                        let mut errs = vec![];
                        for op in reg_ops(n) {
                            let mut copy = ctx.deep_copy();
                            let mut use2 = in_use.clone();
                            if let Some(e) = apply_reg(&mut copy, &mut use2, op, &fleet) {
                                errs.push(format!("copy: {e}"));
                            }
                            errs.extend(check_reg(&copy, &use2, &fleet, &groups).into_iter().map(|e| format!("copy after {op:?}: {e}")));
                            errs.extend(check_reg(&ctx, &in_use, &fleet, &groups).into_iter().map(|e| format!("original after {op:?} on copy: {e}")));
                        }
                        // slices: keep a subset of actors
                        for mask in 1u32..(1 << n) {
                            let keep = |actor: &Actor| {
                                let idx = fleet.actors.iter().position(|a| std::ptr::eq(a.as_ref(), actor)).unwrap();
                                mask >> idx & 1 == 1
                            };
                            let slice = ctx.deep_slice(keep);
                            let mut avail: Vec<usize> = slice.resources().available().map(|a| actor_idx(&fleet, &a)).collect();
                            avail.sort();
                            let expected: Vec<usize> = (0..n).filter(|a| mask >> a & 1 == 1 && !in_use.contains(a)).collect();
                            if avail != expected {
                                errs.push(format!("deep_slice(mask={mask:b}) available {avail:?} != {expected:?}"));
                            }
                            let all: Vec<usize> = slice.resources().all().map(|a| actor_idx(&fleet, &a)).collect();
                            if all != (0..n).filter(|a| mask >> a & 1 == 1).collect::<Vec<_>>() {
                                errs.push(format!("deep_slice(mask={mask:b}) all {all:?} wrong"));
                            }
                            // an actor outside of the slice must not be acquirable from it
                            let mut slice = slice;
                            for a in 0..n {
                                let inside = mask >> a & 1 == 1;
                                let got = slice.get_route(&fleet.actors[a]).is_some();
                                let exp = inside && !in_use.contains(&a);
                                if got != exp {
                                    errs.push(format!("deep_slice(mask={mask:b}).get_route({a}) is_some={got}, expected {exp}"));
                                }
                            }
                            // every single release / acquire on a fresh slice: actors outside of the slice are never accepted nor offered
                            for a in 0..n {
                                let inside = mask >> a & 1 == 1;
                                for release in [true, false] {
                                    let mut sl = ctx.deep_slice(keep);
                                    let rc = RouteContext::new(fleet.actors[a].clone());
                                    let (got, exp) = if release {
                                        (sl.free_route(rc), inside && in_use.contains(&a))
                                    } else {
                                        (sl.use_route(&rc), inside && !in_use.contains(&a))
                                    };
                                    if got != exp {
                                        errs.push(format!(
                                            "deep_slice(mask={mask:b}).{}({a}) returned {got}, expected {exp}",
                                            if release { "free_route" } else { "use_route" }
                                        ));
                                    }
                                    let mut avail: Vec<usize> = sl.resources().available().map(|x| actor_idx(&fleet, &x)).collect();
                                    avail.sort();
                                    let expected: Vec<usize> = (0..n)
                                        .filter(|x| mask >> x & 1 == 1)
                                        .filter(|x| if *x == a && inside { release } else { !in_use.contains(x) })
                                        .collect();
                                    if avail != expected {
                                        errs.push(format!(
                                            "deep_slice(mask={mask:b}) after {}({a}): available {avail:?}, expected {expected:?}",
                                            if release { "free_route" } else { "use_route" }
                                        ));
                                    }
                                }
                            }
                            errs.extend(check_reg(&ctx, &in_use, &fleet, &groups).into_iter().map(|e| format!("original after slice ops: {e}")));
                        }
                        errs
                    });
                    derived += 1;
                    match r {
                        Ok(e) => errs.extend(e),
                        Err(p) => errs.push(format!("panic in copy/slice: {p}")),
                    }
                    if !errs.is_empty() {
                        report.violation(Violation::new(
                            "registry:model-mismatch",
                            errs.join("; "),
                            reg_scenario(fleet_idx, &hist, json!({"random": rname})),
                        ));
                    }
                }
                Err(p) => report.violation(Violation::new(
                    format!("registry:panic@{}", panic_site(&p)),
                    p,
                    reg_scenario(fleet_idx, &hist, json!({"random": rname})),
                )),
            }
        }
        if hist.len() >= depth {
            continue;
        }
        for op in reg_ops(n) {
            let mut next = hist.clone();
            next.push(op);
            transitions += 1;
            // key on the *implementation's* available set (+ depth-independent): rebuild and observe
            let key = match build_reg(&fleet, &next, &goal, randoms[0].1.clone()) {
                Ok((ctx, _, _)) => available_set(ctx.resources(), &fleet).0,
                Err(_) => vec![usize::MAX, transitions as usize],
            };
            // histories are short: explore all histories up to depth (no merging by key beyond counting)
            if seen.insert(key) {
                states += 1;
            }
            if next.len() <= depth {
                frontier.push_back(next);
            }
        }
    }
    report.add_count("states", states);
    report.add_count("registry_states", states);
    report.add_count("transitions", transitions);
    report.add_count("registry_histories", transitions + 1);
    report.add_count("traces_validated_against_impl", transitions + derived);
}

// raw Registry (without context): use/free return values
fn run_raw_registry(depth: usize, report: &mut Report) {
    for (fleet_idx, spec) in FLEETS.iter().enumerate() {
        let fleet = fleet(spec);
        let n = fleet.actors.len();
        let ops: Vec<(bool, usize)> = (0..n).flat_map(|a| [(true, a), (false, a)]).collect();
        let mut count = 0u64;
        let dims = vec![ops.len(); depth];
        product(&dims, |idx| {
            count += 1;
            let r = catch(|| {
                let random: Arc<dyn Random> = Arc::new(crate::env::ScriptedRandom::new(vec![], crate::env::Fallback::Default));
                let mut reg = Registry::new(&fleet, random);
                let mut in_use = BTreeSet::new();
                let mut errs = vec![];
                for i in idx {
                    let (is_use, a) = ops[*i];
                    if is_use {
                        let exp = !in_use.contains(&a);
                        let got = reg.use_actor(&fleet.actors[a]);
                        in_use.insert(a);
                        if got != exp {
                            errs.push(format!("use_actor({a})={got} expected {exp}"));
                        }
                    } else {
                        let exp = in_use.contains(&a);
                        let got = reg.free_actor(&fleet.actors[a]);
                        in_use.remove(&a);
                        if got != exp {
                            errs.push(format!("free_actor({a})={got} expected {exp}"));
                        }
                    }
                    let (avail, unique) = available_set(&reg, &fleet);
                    let expected: Vec<usize> = (0..n).filter(|a| !in_use.contains(a)).collect();
                    if avail != expected || !unique {
                        errs.push(format!("available {avail:?} != {expected:?}"));
                    }
                    let copy = reg.deep_copy();
                    if available_set(&copy, &fleet).0 != expected {
                        errs.push("deep_copy available differs".into());
                    }
                }
                errs
            });
            let hist: Vec<Value> = idx.iter().map(|i| json!([if ops[*i].0 { "use_actor" } else { "free_actor" }, ops[*i].1])).collect();
            match r {
                Ok(errs) if errs.is_empty() => {}
                Ok(errs) => report.violation(Violation::new(
                    "registry:raw-mismatch",
                    errs.join("; "),
                    json!({"part": "raw-registry", "fleet": fleet_idx, "history": hist}),
                )),
                Err(p) => report.violation(Violation::new(
                    format!("registry:panic@{}", panic_site(&p)),
                    p,
                    json!({"part": "raw-registry", "fleet": fleet_idx, "history": hist}),
                )),
            }
        });
        report.add_count("transitions", count * depth as u64);
        report.add_count("raw_registry_histories", count);
        report.add_count("traces_validated_against_impl", count);
    }
}

// route context: deep copy independence incl. state and stale flag
fn run_route_ctx(report: &mut Report) {
    struct ProbeKey;
    let fx = fixture(true);
    let actor = fx.fleet.actors[0].clone();
    let r = catch(|| {
        let mut errs = vec![];
        let mut rc = RouteContext::new(actor.clone());
        rc.route_mut().tour.insert_last(Activity::new_with_job(fx.acts[0].1.clone()));
        rc.state_mut().set_tour_state::<ProbeKey, usize>(1);
        let mut copy = rc.deep_copy();
        if copy.is_stale() != rc.is_stale() {
            errs.push("deep_copy does not preserve stale flag".to_string());
        }
        copy.route_mut().tour.insert_last(Activity::new_with_job(fx.acts[1].1.clone()));
        copy.state_mut().set_tour_state::<ProbeKey, usize>(2);
        if rc.route().tour.job_count() != 1 || rc.state().get_tour_state::<ProbeKey, usize>() != Some(&1) {
            errs.push("mutation of RouteContext copy leaked into the original".to_string());
        }
        rc.route_mut().tour.remove(&fx.jobs[0]);
        rc.state_mut().set_tour_state::<ProbeKey, usize>(3);
        if copy.route().tour.job_count() != 2 || copy.state().get_tour_state::<ProbeKey, usize>() != Some(&2) {
            errs.push("mutation of RouteContext original leaked into the copy".to_string());
        }
        if !(rc == copy) {
            errs.push("RouteContext equality is by actor".to_string());
        }
        errs
    });
    report.add_count("transitions", 4);
    report.add_count("traces_validated_against_impl", 1);
    match r {
        Ok(errs) if errs.is_empty() => {}
        Ok(errs) => report.violation(Violation::new("routectx:copy-independence", errs.join("; "), json!({"part": "route-context"}))),
        Err(p) => report.violation(Violation::new(format!("routectx:panic@{}", panic_site(&p)), p, json!({"part": "route-context"}))),
    }
}

// ------------------------------------------------------------------------------------------

pub fn run(ctx: &RunCtx) -> Report {
    let mut report = Report::new("model_checking");
    let tour_depth = ctx.tier.pick(5, 7);
    let reg_depth = ctx.tier.pick(5, 7);
    let raw_depth = ctx.tier.pick(5, 6);

    let parts = par_map(ctx.threads, 2 + FLEETS.len() + 2, |i| {
        let mut r = Report::new("model_checking");
        match i {
            0 => run_tour_bfs(tour_depth, true, &mut r),
            1 => run_tour_bfs(tour_depth, false, &mut r),
            x if x < 2 + FLEETS.len() => run_registry_bfs(reg_depth, x - 2, &mut r),
            x if x == 2 + FLEETS.len() => run_raw_registry(raw_depth, &mut r),
            _ => run_route_ctx(&mut r),
        }
        r
    });
    for p in parts {
        report.merge(p);
    }
    report.set("exhaustive", true);
    report.set("depth_tour", tour_depth as u64);
    report.set("depth_registry", reg_depth as u64);
    report.set(
        "rule",
        "BFS over all operation histories up to the depth bound on real Tour/Registry/RegistryContext; states = distinct observable \
         implementation states (activity sequence + job set / available set); every history replayed from scratch and compared with Vec/set model; \
         deep_copy/deep_slice independence checked at every state with every single follow-up op",
    );
    report.assume("job alphabet {S1,S2,M=(m1,m2)}, each task placed at most once; fleets of 1-3 actors in 1-2 groups");
    report
}

pub fn replay(_ctx: &RunCtx, scenario: &Value) -> Result<Vec<Violation>, String> {
    let part = scenario.get("part").and_then(|p| p.as_str()).unwrap_or("");
    let mut report = Report::new("model_checking");
    match part {
        "tour" => {
            let closed = scenario["closed"].as_bool().ok_or("no closed")?;
            let hist: Vec<TourOp> =
                scenario["history"].as_array().ok_or("no history")?.iter().filter_map(TourOp::from_json).collect();
            let fx = fixture(closed);
            match build_tour(&hist, closed, &fx) {
                Ok((tour, model, errs)) => {
                    if !errs.is_empty() {
                        report.violation(Violation::new("tour:model-mismatch", errs.join("; "), scenario.clone()));
                    }
                    if let Some(op) = scenario["extra"].get("copy_op").and_then(TourOp::from_json) {
                        let snapshot = observe_tour(&tour, &fx);
                        let mut copy = tour.deep_copy();
                        apply_tour(&mut copy, op, &fx);
                        let mut m2 = model.clone();
                        m2.apply(op, &fx);
                        let mut errs = check_tour(&copy, &m2, closed, &fx);
                        if observe_tour(&tour, &fx) != snapshot {
                            errs.push("op on the copy changed the original".into());
                        }
                        if !errs.is_empty() {
                            report.violation(Violation::new("tour:copy-independence", errs.join("; "), scenario.clone()));
                        }
                    }
                }
                Err(p) => report.violation(Violation::new(format!("tour:panic@{}", panic_site(&p)), p, scenario.clone())),
            }
        }
        "registry" => {
            let fleet_idx = scenario["fleet"].as_u64().ok_or("no fleet")? as usize;
            let hist: Vec<RegOp> =
                scenario["history"].as_array().ok_or("no history")?.iter().filter_map(RegOp::from_json).collect();
            let mut sub = Report::new("model_checking");
            // re-run the single history through the BFS body: depth 0 exploration from that history is not available,
            // so rebuild and check directly
            let spec = FLEETS[fleet_idx];
            let fl = fleet(spec);
            let groups: Vec<usize> = fl
                .actors
                .iter()
                .map(|a| spec.iter().find(|(id, _, _, _)| Some(&id.to_string()) == a.vehicle.dimens.get_vehicle_id()).unwrap().2)
                .collect();
            let goal = trivial_goal();
            let random: Arc<dyn Random> = Arc::new(crate::env::ScriptedRandom::new(vec![], crate::env::Fallback::Default));
            match build_reg(&fl, &hist, &goal, random) {
                Ok((c, in_use, mut errs)) => {
                    errs.extend(check_reg(&c, &in_use, &fl, &groups));
                    if !errs.is_empty() {
                        sub.violation(Violation::new("registry:model-mismatch", errs.join("; "), scenario.clone()));
                    }
                }
                Err(p) => sub.violation(Violation::new(format!("registry:panic@{}", panic_site(&p)), p, scenario.clone())),
            }
            report.merge(sub);
        }
        _ => {
            // raw registry / route ctx: cheap enough to re-run whole part
            run_raw_registry(5, &mut report);
            run_route_ctx(&mut report);
        }
    }
    Ok(report.violations)
}
