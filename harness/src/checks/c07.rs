//! C07 — interrupting the solver at any moment still yields a valid solution.
//!
//! Crash-point enumeration: for every problem of a slice and every configuration, the number N of quota polls of the
//! uninterrupted run is measured, then the solve is repeated with the quota turning true at its k-th poll for EVERY
//! k in 0..=N. Second axis: a time limit under the virtual clock, the deadline passing at the j-th clock read for every j.
//! Third axis: generation limits with a counting hyper-heuristic.

use super::Extra;
use crate::env::*;
use crate::prag::families::*;
use crate::prag::model::*;
use crate::prag::oracle::{self, OracleOptions};
use crate::prag::solve::*;
use crate::*;
use rosomaxa::prelude::Quota;
use serde_json::{Value, json};
use std::collections::HashSet;
use std::sync::Arc;
use std::sync::atomic::{AtomicU64, Ordering};

fn slice(tier: Tier) -> Vec<(String, PProblem)> {
    let mut out = vec![];
    for (name, problems) in all_families(Tier::Quick) {
        let per = match (name, tier) {
            ("core", Tier::Quick) => 16,
            ("core", _) => 400,
            (_, Tier::Quick) => 4,
            _ => 80,
        };
        let candidates: Vec<PProblem> = problems.into_iter().filter(|p| p.jobs.len() >= 2).collect();
        let step = (candidates.len() / per.max(1)).max(1);
        out.extend(candidates.into_iter().step_by(step).take(per).map(|p| (name.to_string(), p)));
    }
    // recharge stations and time-dependent matrices (the oracle replays them fully)
    let n = match tier {
        Tier::Quick => 3,
        _ => 60,
    };
    let rc = family_recharge();
    let step = (rc.len() / n).max(1);
    out.extend(rc.into_iter().step_by(step).take(n).map(|p| ("recharge".to_string(), p)));
    out.extend(family_combo(2).into_iter().step_by(tier.pick(16, 1)).map(|p| ("combo".to_string(), p)));
    // vicinity clustering: the clusters are unwrapped by a post-processing step, also when the search was interrupted
    let ct = family_cluster_tw();
    out.extend(ct.into_iter().step_by(tier.pick(36, 6)).map(|p| ("cluster".to_string(), p)));
    let td = family_timedep();
    let step = (td.len() / n).max(1);
    out.extend(td.into_iter().step_by(step).take(n).map(|p| ("timedep".to_string(), p)));
    out
}

fn cfgs(tier: Tier) -> Vec<SolveCfg> {
    let base = SolveCfg::default();
    let mut v = vec![
        SolveCfg { population: PopKind::Greedy, hyper: HyperKind::Static, generations: 1, ..base.clone() },
        SolveCfg { population: PopKind::Default, hyper: HyperKind::Dynamic, generations: 3, seed: 1, ..base.clone() },
    ];
    if !tier.is_quick() {
        v.push(SolveCfg { population: PopKind::RosomaxaSmall, hyper: HyperKind::Dynamic, generations: 3, seed: 2, init_size: 4, ..base.clone() });
        v.push(SolveCfg { population: PopKind::Elitism, hyper: HyperKind::Static, generations: 5, seed: 3, ..base.clone() });
    }
    v
}

fn judge_solution(family: &str, problem: &PProblem, json: &Value) -> Vec<(String, String)> {
    let mut seen = HashSet::new();
    oracle::check(problem, json, &OracleOptions { tol: oracle::tolerance(family, problem) })
        .into_iter()
        .filter(|f| oracle::applies(f, family, problem))
        // a tour over an unreachable leg is named by problem and leg (as C01 does): "<rule>:<problem>:<leg>|<family>" is split by `key_of`
        .map(|f| (super::c01::finding_key(&f, family, problem), f.what))
        .filter(|(k, _)| seen.insert(k.clone()))
        .collect()
}

/// Key of a finding under an axis: the recorded unreachable-leg defect keeps its C01 key (problem and leg), whatever the
/// interruption point was; everything else is "<axis>:<rule>:<family>".
fn key_of(axis: &str, rule_key: &str) -> String {
    if rule_key.starts_with("C01:unreachable-leg:") { rule_key.to_string() } else { format!("{axis}:{rule_key}") }
}

fn quota_axis(family: &str, problem: &PProblem, cfg: &SolveCfg, report: &mut Report) {
    // uninterrupted run: count polls
    let never = Arc::new(CountingQuota::new(u64::MAX));
    let base = solve(problem, cfg, Some(never.clone() as Arc<dyn Quota>), None);
    let n = never.polls();
    report.add_count("quota_polls_total", n);
    if base.is_err() {
        report.violation(Violation::new(
            format!("uninterrupted-solve-fails:{family}"),
            base.err().unwrap(),
            json!({"axis": "quota", "family": family, "problem": problem.name, "cfg": cfg.to_json(), "fire_at": null}),
        ));
        return;
    }
    for k in 0..=n {
        report.add_count("evaluations", 1);
        report.add_count("crash_points", 1);
        let quota = Arc::new(CountingQuota::new(k));
        let scen = json!({"axis": "quota", "family": family, "problem": problem.name, "cfg": cfg.to_json(), "fire_at": k, "polls_uninterrupted": n});
        match solve(problem, cfg, Some(quota.clone() as Arc<dyn Quota>), None) {
            Ok(solved) => {
                for (rule, what) in judge_solution(family, problem, &solved.json) {
                    report.violation(Violation::new(key_of("interrupted", &rule), format!("quota fired at poll {k} of {n}: {what}"), scen.clone()));
                }
                if k % 97 == 3 {
                    let unassigned = solved.json.get("unassigned").and_then(|u| u.as_array()).map_or(0, |u| u.len());
                    report.sample(json!({"problem": problem.name, "fire_at": k, "of": n, "unassigned": unassigned}));
                }
            }
            Err(e) => {
                let key = if e.starts_with("panic") { format!("interrupted:panic@{}:{family}", panic_site(&e)) } else { format!("interrupted:solve-error:{}", if k == 0 { "at-first-poll" } else { "later" }) };
                report.violation(Violation::new(key, format!("quota fired at poll {k} of {n}: {e}"), scen));
            }
        }
    }
}

fn time_axis(ctx: &RunCtx, family: &str, problem: &PProblem, cfg: &SolveCfg, report: &mut Report) {
    // measure clock reads of a run with a far deadline (1 tick = 1 microsecond, limit 1000 s)
    let cfg = SolveCfg { generations: usize::MAX, ..cfg.clone() };
    let run = |tick_us: u64, limit_s: usize| -> (Result<Solved, String>, u64) {
        MAX_TIME.with(|c| *c.borrow_mut() = Some(limit_s));
        rosomaxa::utils::verif_clock::enable(tick_us);
        let r = solve(problem, &cfg, None, None);
        let reads = rosomaxa::utils::verif_clock::disable();
        MAX_TIME.with(|c| *c.borrow_mut() = None);
        (r, reads)
    };
    // with limit 1 s and tick T us the deadline passes at read ~ 1e6 / T; choose T so that it passes at read j
    let max_j = ctx.tier.pick(40u64, 400);
    for j in 1..=max_j {
        report.add_count("evaluations", 1);
        report.add_count("deadline_points", 1);
        let tick = 1_000_000 / j + 1;
        let (r, reads) = run(tick, 1);
        let scen = json!({"axis": "time", "family": family, "problem": problem.name, "cfg": cfg.to_json(), "deadline_at_read": j, "reads": reads});
        match r {
            Ok(solved) => {
                for (rule, what) in judge_solution(family, problem, &solved.json) {
                    report.violation(Violation::new(key_of("time-limit", &rule), format!("deadline at clock read {j}: {what}"), scen.clone()));
                }
            }
            Err(e) => {
                let key = if e.starts_with("panic") {
                    format!("time-limit:panic@{}:{family}", panic_site(&e))
                } else {
                    format!("time-limit:solve-error:{}", if j <= 3 { "deadline-before-first-solution" } else { "later" })
                };
                report.violation(Violation::new(key, format!("deadline at clock read {j}: {e}"), scen));
            }
        }
    }
}

fn generation_axis(family: &str, problem: &PProblem, cfg: &SolveCfg, report: &mut Report) {
    for limit in [0usize, 1, 2, 3, 5] {
        report.add_count("evaluations", 1);
        report.add_count("generation_limits", 1);
        let counter = Arc::new(AtomicU64::new(0));
        GENERATION_COUNTER.with(|c| *c.borrow_mut() = Some(counter.clone()));
        let cfg = SolveCfg { generations: limit, ..cfg.clone() };
        let r = solve(problem, &cfg, None, None);
        GENERATION_COUNTER.with(|c| *c.borrow_mut() = None);
        let rounds = counter.load(Ordering::SeqCst) as usize;
        let scen = json!({"axis": "generations", "family": family, "problem": problem.name, "cfg": cfg.to_json(), "limit": limit, "rounds": rounds});
        match r {
            Ok(solved) => {
                if rounds > limit {
                    report.violation(Violation::new(
                        format!("generations:{}", if rounds == limit + 1 { "one-more-than-limit" } else { "more-than-limit" }),
                        format!("max-generations {limit}: {rounds} evolution rounds were run"),
                        scen.clone(),
                    ));
                }
                for (rule, what) in judge_solution(family, problem, &solved.json) {
                    report.violation(Violation::new(key_of("generation-limit", &rule), what, scen.clone()));
                }
            }
            // a limit of zero is outside of the property (it speaks of a positive limit)
            Err(_) if limit == 0 => report.add_count("zero_limit_errors_not_judged", 1),
            Err(e) => report.violation(Violation::new(format!("generation-limit:solve-error:limit{limit}"), e, scen)),
        }
    }
}

/// Interruption INSIDE particular operators: problems with three and more tours / conditional jobs / relations (also under a
/// goal which does not put the unassigned jobs first), solved with a hyper-heuristic made of ONE operator.
fn operator_slice(tier: Tier) -> Vec<(String, PProblem)> {
    let mut out: Vec<(String, PProblem)> = vec![];
    let fleet4: Vec<PProblem> = family_fleet4(tier).into_iter().step_by(tier.pick(3, 1)).map(|p| p.fit_matrices()).collect();
    for p in &fleet4 {
        out.push(("fleet4".to_string(), p.clone()));
        let mut q = p.clone();
        q.name = format!("{}/cost-only", q.name);
        q.objectives = Some(json!([{"type": "minimize-cost"}]));
        out.push(("fleet4-goals".to_string(), q));
    }
    out.extend(family_mixed10().into_iter().take(tier.pick(1, 3)).map(|p| ("mixed10".to_string(), p)));
    out.extend(family_combo(2).into_iter().step_by(tier.pick(29, 5)).map(|p| ("combo".to_string(), p)));
    out
}

fn operator_cfgs() -> Vec<SolveCfg> {
    [HyperKind::Decompose, HyperKind::Infeasible, HyperKind::Redistribute, HyperKind::LkhDiverse]
        .into_iter()
        .map(|hyper| SolveCfg { population: PopKind::Greedy, hyper, generations: 2, seed: 4, ..SolveCfg::default() })
        .collect()
}

pub fn worker(ctx: &RunCtx, shard: usize, of: usize, _extra: &Extra) -> Report {
    let mut report = Report::new("fault_enumeration");
    let problems = slice(ctx.tier);
    let cfgs = cfgs(ctx.tier);
    let mut idx = 0;
    for (family, problem) in &operator_slice(ctx.tier) {
        for cfg in &operator_cfgs() {
            idx += 1;
            if idx % of != shard {
                continue;
            }
            let before = report.get_count("crash_points");
            quota_axis(family, problem, cfg, &mut report);
            report.add_count("crash_points_inside_single_operators", report.get_count("crash_points") - before);
            report.add_count("scenarios", 1);
        }
    }
    for (family, problem) in &problems {
        for cfg in &cfgs {
            idx += 1;
            if idx % of != shard {
                continue;
            }
            quota_axis(family, problem, cfg, &mut report);
            generation_axis(family, problem, cfg, &mut report);
            if idx % 3 == 0 {
                time_axis(ctx, family, problem, cfg, &mut report);
            }
            report.add_count("scenarios", 1);
        }
    }
    report
}

pub fn run(ctx: &RunCtx) -> Report {
    let n = slice(ctx.tier).len() * cfgs(ctx.tier).len();
    let mut report = run_sharded_report(ctx, "fault_enumeration", n.min(ctx.threads * 8), &[]);
    let distinct = report.get_count("crash_points") + report.get_count("deadline_points") + report.get_count("generation_limits");
    report.set("distinct_nontrivial", distinct);
    report.set("exhaustive", true);
    report.set(
        "rule",
        "for every (problem of the slice, configuration): the quota fires at its k-th poll for every k in 0..=N (N = polls of the uninterrupted run, measured); \
         a time limit under the virtual clock whose deadline passes at clock read j for every j <= 40/400; max-generations in {0,1,2,3,5} with a counting \
         hyper-heuristic; every returned solution judged by the full oracle (C01-C03 rules); distinct = enumerated crash points (each is a different execution prefix)",
    );
    report.assume("quota polls and clock reads are the library's own poll points; a limit of zero is outside of the property (reported under its own key)");
    report
}

pub fn replay(ctx: &RunCtx, scenario: &Value) -> Result<Vec<Violation>, String> {
    let family = scenario["family"].as_str().ok_or("family")?;
    let name = scenario["problem"].as_str().ok_or("problem")?;
    let (family, problem) = slice(Tier::Thorough)
        .into_iter()
        .chain(slice(Tier::Quick))
        .chain(operator_slice(Tier::Thorough))
        .find(|(f, p)| f == family && p.name == name)
        .ok_or("problem not in slice")?;
    let cfg = SolveCfg::from_json(&scenario["cfg"]);
    let mut report = Report::new("fault_enumeration");
    match scenario["axis"].as_str().unwrap_or("") {
        "quota" => {
            let k = scenario["fire_at"].as_u64().unwrap_or(u64::MAX);
            let quota = Arc::new(CountingQuota::new(k));
            match solve(&problem, &cfg, Some(quota as Arc<dyn Quota>), None) {
                Ok(solved) => {
                    for (rule, what) in judge_solution(&family, &problem, &solved.json) {
                        report.violation(Violation::new(key_of("interrupted", &rule), what, scenario.clone()));
                    }
                }
                Err(e) => {
                    let key = if e.starts_with("panic") { format!("interrupted:panic@{}:{family}", panic_site(&e)) } else { format!("interrupted:solve-error:{}", if k == 0 { "at-first-poll" } else { "later" }) };
                    report.violation(Violation::new(key, e, scenario.clone()));
                }
            }
        }
        "generations" => generation_axis(&family, &problem, &cfg, &mut report),
        _ => time_axis(ctx, &family, &problem, &SolveCfg { generations: 3, ..cfg }, &mut report),
    }
    Ok(report.violations)
}
