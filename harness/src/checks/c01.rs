//! C01 / C02 / C03 — returned solutions are feasible, account for every job exactly once, and report reproducible numbers.
//!
//! Bounded-exhaustive: every problem of the small-problem families x every configuration of a configuration alphabet x
//! RNG streams x split-plan policies is solved by the real solver in deterministic worker processes and judged by the
//! independent oracle. The three properties share the scenario space and differ in the rule group they judge.

use super::Extra;
use crate::env::*;
use crate::prag::families::*;
use crate::prag::model::*;
use crate::prag::oracle::{self, OracleOptions, Scope};
use crate::prag::solve::*;
use crate::*;
use serde_json::{Value, json};
use std::collections::HashSet;

pub fn scope_of(id: &str) -> Scope {
    match id {
        "C01" => Scope::Hard,
        "C02" => Scope::Accounting,
        "C03" => Scope::Reporting,
        _ => Scope::All,
    }
}

pub fn configs(tier: Tier) -> Vec<SolveCfg> {
    let base = SolveCfg::default();
    if tier.is_quick() {
        vec![
            SolveCfg { population: PopKind::Default, hyper: HyperKind::Dynamic, generations: 3, seed: 0, ..base.clone() },
            SolveCfg { population: PopKind::Greedy, hyper: HyperKind::Static, generations: 1, seed: 1, plan: Some(PlanPolicy::Reverse), ..base.clone() },
            SolveCfg { population: PopKind::RosomaxaSmall, hyper: HyperKind::Dynamic, generations: 8, seed: 2, init_size: 4, plan: Some(PlanPolicy::SingletonsLeft), ..base.clone() },
            // longer runs: the search operators get their turn
            SolveCfg { population: PopKind::Elitism, hyper: HyperKind::Static, generations: 12, seed: 3, plan: Some(PlanPolicy::Sequential), ..base.clone() },
            SolveCfg { population: PopKind::Default, hyper: HyperKind::Dynamic, generations: 30, seed: 4, init_size: 4, ..base.clone() },
            SolveCfg { population: PopKind::RosomaxaSmall, hyper: HyperKind::Static, generations: 20, seed: 5, plan: Some(PlanPolicy::Reverse), ..base.clone() },
        ]
    } else {
        let mut out = vec![];
        for population in [PopKind::Default, PopKind::Greedy, PopKind::Elitism, PopKind::RosomaxaSmall] {
            for hyper in [HyperKind::Dynamic, HyperKind::Static] {
                for generations in [1usize, 3, 10] {
                    for seed in 0..2u64 {
                        for (pi, plan) in [PlanPolicy::Sequential, PlanPolicy::Reverse, PlanPolicy::SingletonsRight].into_iter().enumerate() {
                            // thin the product: the plan axis rotates with the other axes instead of multiplying them
                            if (pi + generations + seed as usize) % 3 != 0 {
                                continue;
                            }
                            for init_size in [1usize, 4] {
                                if init_size == 4 && generations != 3 {
                                    continue;
                                }
                                out.push(SolveCfg { population, hyper, generations, seed, plan: Some(plan), init_size, ..base.clone() });
                            }
                        }
                    }
                }
            }
        }
        out
    }
}

/// Flat scenario list: (family, problem).
pub fn problems(tier: Tier) -> Vec<(String, PProblem)> {
    all_families(tier).into_iter().flat_map(|(name, ps)| ps.into_iter().map(move |p| (name.to_string(), p))).collect()
}

/// Vicinity clustering is outside of the oracle's schedule replay: its problems are judged by the accounting rules only.
pub fn problems_for(tier: Tier, scope: Scope) -> Vec<(String, PProblem)> {
    let mut out = problems(tier);
    out.extend(family_timedep().into_iter().map(|p| ("timedep".to_string(), p)));
    out.extend(family_recharge().into_iter().map(|p| ("recharge".to_string(), p)));
    // required breaks: accounting rules and the break's own hard rules
    // (reporting: only what does not need the replay of the schedule around the break)
    out.extend(family_reqbreak().into_iter().map(|p| ("reqbreak".to_string(), p)));
    // clustering: accounting rules, and of the reporting rules only "overall statistic == sum of the tours"
    if matches!(scope, Scope::Accounting | Scope::Reporting) {
        out.extend(family_cluster().into_iter().map(|p| ("cluster".to_string(), p)));
        out.extend(family_cluster_walk().into_iter().map(|p| ("cluster".to_string(), p)));
    }
    // feature interaction: every pair (thorough: and every triple) of the feature transforms
    out.extend(family_combo(1).into_iter().chain(family_combo(2)).map(|p| ("combo".to_string(), p)));
    if tier != Tier::Quick {
        out.extend(family_combo(3).into_iter().map(|p| ("combo".to_string(), p)));
    }
    // clustering x job attributes: every scope; of the hard rules those which do not need the schedule
    out.extend(family_cluster_attr().into_iter().map(|p| ("cluster".to_string(), p)));
    // clustering x time windows: every scope; the service of a clustered job starts inside one of its windows
    out.extend(family_cluster_tw().into_iter().map(|p| ("cluster".to_string(), p)));
    out.extend(family_cluster_tw_grid(tier).into_iter().map(|p| ("cluster".to_string(), p)));
    out
}

fn tolerance_for(family: &str) -> f64 {
    if family == "scale" { 1. } else { 0. }
}

/// Key of a finding. A tour over an unreachable leg is identified by the problem and the leg (a recorded finding must not
/// hide another input of the same family).
pub fn finding_key(f: &oracle::Finding, family: &str, problem: &PProblem) -> String {
    if f.rule == "C01:unreachable-leg" {
        let leg = f.what.split("leg ").nth(1).and_then(|r| r.split(' ').next()).unwrap_or("?");
        format!("{}:{}:{leg}", f.rule, problem.name)
    } else {
        format!("{}:{family}", f.rule)
    }
}

pub struct Judged {
    pub violations: Vec<Violation>,
    pub outcome: String,
    pub assigned: usize,
    pub unassigned: usize,
}

/// Solves one scenario and judges it.
pub fn judge(family: &str, problem: &PProblem, cfg: &SolveCfg, scope: Scope) -> Judged {
    let scen = json!({"family": family, "problem": problem.name, "cfg": cfg.to_json()});
    judge_solved(family, problem, scen, scope, solve(problem, cfg, None, None))
}

/// The same through the CLI's JSON solver configuration.
pub fn judge_cli(family: &str, problem: &PProblem, name: &str, config: &Value, seed: u64, scope: Scope) -> Judged {
    let scen = json!({"family": family, "problem": problem.name, "cli_config": name, "cli_generations": config["termination"]["maxGenerations"], "seed": seed});
    judge_solved(family, problem, scen, scope, solve_cli_config(problem, config, seed))
}

fn judge_solved(family: &str, problem: &PProblem, scen: Value, scope: Scope, solved: Result<Solved, String>) -> Judged {
    match solved {
        Ok(solved) => {
            let findings = oracle::check(problem, &solved.json, &OracleOptions { tol: tolerance_for(family).max(oracle::tolerance(family, problem)) });
            if std::env::var("VERIF_DUMP").is_ok() {
                eprintln!("PROBLEM {}\nMATRICES {}\nSOLUTION {}", problem.problem_json(), json!(problem.matrices_json()), solved.json);
                for f in &findings {
                    eprintln!("FINDING {} :: {}", f.rule, f.what);
                }
            }
            let mut seen = HashSet::new();
            let violations = findings
                .into_iter()
                .filter(|f| oracle::in_scope(f, scope))
                .filter(|f| oracle::applies(f, family, problem))
                .map(|f| (finding_key(&f, family, problem), f))
                .filter(|(key, _)| seen.insert(key.clone()))
                .map(|(key, f)| Violation::new(key, f.what, scen.clone()))
                .collect();
            let tours = solved.json.get("tours").and_then(|t| t.as_array()).map_or(0, |t| t.len());
            let unassigned = solved.json.get("unassigned").and_then(|t| t.as_array()).map_or(0, |t| t.len());
            let outcome = format!(
                "{}",
                fnv64(solved.json.get("tours").map(|t| t.to_string()).unwrap_or_default().as_bytes())
            );
            Judged { violations, outcome, assigned: tours, unassigned }
        }
        Err(e) => {
            let key = if e.starts_with("panic") {
                format!("solve-panic@{}:{family}", panic_site(&e))
            } else if e.starts_with("rejected") {
                format!("valid-problem-rejected:{family}")
            } else {
                format!("solve-error:{family}")
            };
            Judged { violations: vec![Violation::new(key, e, scen)], outcome: "error".into(), assigned: 0, unassigned: 0 }
        }
    }
}

/// Long runs: bigger problems, many generations, the default pipeline with 4 cpus (as the repository's feature tests run).
pub fn long_scenarios(tier: Tier) -> Vec<(String, PProblem, SolveCfg)> {
    let mut out = vec![];
    // one long tour: the sampled leg selection of the evaluator
    for p in family_long50() {
        for seed in 0..tier.pick(3u64, 16) {
            out.push(("long50".to_string(), p.clone(), SolveCfg { population: PopKind::Default, hyper: HyperKind::Dynamic, generations: tier.pick(60, 300), seed: 200 + seed, cpus: 4, init_size: 4, ..SolveCfg::default() }));
        }
    }
    for (family, p) in family_line12().into_iter().map(|p| ("line12", p)).chain(family_mixed10().into_iter().map(|p| ("mixed10", p))) {
        for seed in 0..tier.pick(6u64, 64) {
            for generations in tier.pick(vec![300usize], vec![300, 1000]) {
                out.push((
                    family.to_string(),
                    p.clone(),
                    SolveCfg { population: PopKind::Default, hyper: HyperKind::Dynamic, generations, seed: 100 + seed, cpus: 4, init_size: 4, ..SolveCfg::default() },
                ));
            }
        }
    }
    out
}

/// Problems x CLI solver configurations: a slice of the families with several tours / conditional jobs / relations.
pub fn cli_scenarios(tier: Tier) -> Vec<(String, PProblem, String, Value)> {
    let mut problems: Vec<(String, PProblem)> = vec![];
    problems.extend(family_mixed10().into_iter().map(|p| ("mixed10".to_string(), p)));
    problems.extend(family_line12().into_iter().step_by(2).map(|p| ("line12".to_string(), p)));
    problems.extend(family_fleet4(tier).into_iter().step_by(tier.pick(4, 1)).map(|p| ("fleet4".to_string(), p.fit_matrices())));
    problems.extend(family_cond(tier).into_iter().step_by(tier.pick(9, 2)).map(|p| ("cond".to_string(), p.fit_matrices())));
    problems.extend(family_rel(tier).into_iter().step_by(tier.pick(5, 1)).map(|p| ("rel".to_string(), p.fit_matrices())));
    problems.extend(family_combo(2).into_iter().step_by(tier.pick(23, 3)).map(|p| ("combo".to_string(), p)));
    let configs = cli_configs(tier.pick(8, 40));
    let mut out = vec![];
    for (family, p) in problems {
        for (name, config) in &configs {
            out.push((family.clone(), p.clone(), name.clone(), config.clone()));
        }
    }
    out
}

pub fn worker(ctx: &RunCtx, shard: usize, of: usize, extra: &Extra) -> Report {
    let scope = scope_of(&ctx.id);
    let mut report = Report::new("exploration");
    if extra.get("part").map(|s| s.as_str()) == Some("cli") {
        let scenarios = cli_scenarios(ctx.tier);
        let mut outcomes: HashSet<String> = HashSet::new();
        for (idx, (family, problem, name, config)) in scenarios.iter().enumerate() {
            if idx % of != shard {
                continue;
            }
            if let Ok(only) = std::env::var("VERIF_CLI_ONLY") {
                if format!("{} {}", problem.name, name) != only {
                    continue;
                }
            }
            let judged = judge_cli(family, problem, name, config, 7 + ctx.seed * 1000, scope);
            report.add_count("evaluations", 1);
            report.add_count("cli_config_solves", 1);
            if std::env::var("VERIF_DBG").is_ok() {
                eprintln!("CLI {} {} {}", problem.name, name, judged.outcome);
            }
            report.add_count("tours_returned", judged.assigned as u64);
            outcomes.insert(format!("{}:{}", problem.name, judged.outcome));
            for v in judged.violations {
                report.violation(v);
            }
        }
        report.add_count("distinct_nontrivial", outcomes.len() as u64);
        return report;
    }
    if extra.get("part").map(|s| s.as_str()) == Some("long") {
        let scenarios = long_scenarios(ctx.tier);
        let mut outcomes: HashSet<String> = HashSet::new();
        for (idx, (family, problem, cfg)) in scenarios.iter().enumerate() {
            if idx % of != shard {
                continue;
            }
            let cfg = SolveCfg { seed: cfg.seed + ctx.seed * 1000, ..cfg.clone() };
            let judged = judge(family, problem, &cfg, scope);
            report.add_count("evaluations", 1);
            report.add_count("long_solves", 1);
            report.add_count("tours_returned", judged.assigned as u64);
            outcomes.insert(format!("{}:{}", problem.name, judged.outcome));
            for v in judged.violations {
                report.violation(v);
            }
        }
        report.add_count("distinct_nontrivial", outcomes.len() as u64);
        return report;
    }
    let problems = problems_for(ctx.tier, scope);
    let cfgs = configs(ctx.tier);
    let mut outcomes: HashSet<String> = HashSet::new();
    let total = problems.len() * cfgs.len();
    // contiguous ranges keep a shard's content a function of (tier, shard index) only
    let per = total.div_ceil(of);
    let (lo, hi) = (shard * per, ((shard + 1) * per).min(total));
    for idx in lo..hi {
        let (pi, ci) = (idx / cfgs.len(), idx % cfgs.len());
        let (family, problem) = &problems[pi];
        // the VERIF_SEED shifts the RNG stream of every scenario
        let cfg = SolveCfg { seed: cfgs[ci].seed + ctx.seed * 1000, ..cfgs[ci].clone() };
        let judged = judge(family, problem, &cfg, scope);
        report.add_count("evaluations", 1);
        report.add_count(&format!("solves_{family}"), 1);
        report.add_count("tours_returned", judged.assigned as u64);
        report.add_count("unassigned_returned", judged.unassigned as u64);
        outcomes.insert(format!("{pi}:{}", judged.outcome));
        for v in judged.violations {
            report.violation(v);
        }
        if idx % 997 == 0 {
            report.sample(json!({"family": family, "problem": problem.name, "cfg": cfg.to_json()}));
        }
    }
    report.add_count("distinct_nontrivial", outcomes.len() as u64);
    report
}

pub fn run(ctx: &RunCtx) -> Report {
    let total = problems_for(ctx.tier, scope_of(&ctx.id)).len() * configs(ctx.tier).len();
    // shards of a few hundred solves
    let shards = total.div_ceil(ctx.tier.pick(150, 400)).max(ctx.threads);
    let mut report = run_sharded_report(ctx, "exploration", shards, &[]);
    let long = run_sharded_report(ctx, "exploration", long_scenarios(ctx.tier).len().min(ctx.threads * 4), &["--part".to_string(), "long".to_string()]);
    report.merge(long);
    let cli = run_sharded_report(ctx, "exploration", ctx.threads * 4, &["--part".to_string(), "cli".to_string()]);
    report.merge(cli);
    report.set("cli_configurations", cli_configs(1).len() as u64);
    report.set("scenarios", total as u64);
    report.set("exhaustive", true);
    report.set("configurations", configs(ctx.tier).len() as u64);
    if report.get_count("tours_returned") == 0 {
        report.error("vacuous: no tour was returned by any solve");
    }
    report.set(
        "rule",
        "every problem of the families (core multisets of 10 job templates x fleet x shift x objectives; pickup-delivery; multi-dimensional; skills/groups/\
         compatibility/order/value; limits; reloads/breaks/two shifts; relations; unreachable legs; scaled profiles; infeasible; tour-shape objectives) x \
         every configuration (population x hyper-heuristic x generations x RNG stream x split-plan policy x initial size) solved in deterministic workers \
         and judged by the independent oracle; distinct_nontrivial = distinct (problem, returned tour set) pairs",
    );
    report.assume("problems have <= 6 jobs and <= 3 vehicles over 5 locations; integral times so that reported values must match exactly (scaled profiles: +-1)");
    report.assume("required breaks, recharge and vicinity clustering are outside of the oracle's rule set");
    report
}

pub fn replay(ctx: &RunCtx, scenario: &Value) -> Result<Vec<Violation>, String> {
    let family = scenario["family"].as_str().ok_or("family")?;
    let name = scenario["problem"].as_str().ok_or("problem")?;
    if let Some(cli_name) = scenario["cli_config"].as_str() {
        let generations = scenario["cli_generations"].as_u64().unwrap_or(8) as usize;
        let (_, config) = cli_configs(generations).into_iter().find(|(n, _)| n == cli_name).ok_or("unknown cli config")?;
        let (family, problem, _, _) = [Tier::Quick, Tier::Thorough]
            .into_iter()
            .find_map(|t| cli_scenarios(t).into_iter().find(|(f, p, _, _)| f == family && p.name == name))
            .ok_or("problem not found in the cli scenarios")?;
        return Ok(judge_cli(&family, &problem, cli_name, &config, scenario["seed"].as_u64().unwrap_or(7), scope_of(&ctx.id)).violations);
    }
    let cfg = SolveCfg::from_json(&scenario["cfg"]);
    // the problem is regenerated from its name (search both tiers)
    let found = [Tier::Quick, Tier::Thorough]
        .into_iter()
        .find_map(|t| problems_for(t, Scope::Accounting).into_iter().find(|(f, p)| f == family && p.name == name))
        .or_else(|| family_line12().into_iter().find(|p| p.name == name).map(|p| ("line12".to_string(), p)))
        .or_else(|| family_mixed10().into_iter().find(|p| p.name == name).map(|p| ("mixed10".to_string(), p)))
        .or_else(|| family_long50().into_iter().find(|p| p.name == name).map(|p| ("long50".to_string(), p)));
    let (family, problem) = found.ok_or("problem not found in the families")?;
    Ok(judge(&family, &problem, &cfg, scope_of(&ctx.id)).violations)
}
