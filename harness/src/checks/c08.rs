//! C08 — a population never loses its best-known solution.
//!
//! Explicit-state search over histories of {add, add_all, on_generation} on the real Greedy / Elitism / Rosomaxa
//! populations (vector example types), every state rebuilt by replaying its history; a "multiset of everything offered"
//! reference model; observers (ranked, select, all, size, phase) judged in every state.

use crate::env::*;
use crate::*;
use rosomaxa::example::{VectorObjective, VectorRosomaxaContext, VectorSolution};
use rosomaxa::population::{Elitism, Greedy, HeuristicPopulation, Rosomaxa, RosomaxaConfig, SelectionPhase};
use rosomaxa::prelude::*;
use rosomaxa::utils::Parallelism;
use serde_json::{Value, json};
use std::cmp::Ordering;
use std::collections::{HashSet, VecDeque};
use std::sync::Arc;

type Pop = Box<dyn HeuristicPopulation<Objective = VectorObjective, Individual = VectorSolution> + Send + Sync>;

const FITNESS: [f64; 6] = [0.0, -0.0, 1., 1.0000001, 2., 3.];
const WEIGHTS: [[f64; 2]; 3] = [[1., 1.], [1., 1.01], [5., 0.5]];

/// Individual alphabet: (fitness idx, weights idx).
fn individuals() -> Vec<(usize, usize)> {
    let mut v = vec![];
    for f in 0..FITNESS.len() {
        for w in 0..WEIGHTS.len() {
            // keep the alphabet small: every fitness with weights 0, some with the others
            if w == 0 || (f + w) % 2 == 0 {
                v.push((f, w));
            }
        }
    }
    v
}

#[derive(Clone, Debug, PartialEq)]
enum Op {
    Add(usize),
    AddAll(Vec<usize>),
    Gen(usize),
}

impl Op {
    fn to_json(&self) -> Value {
        match self {
            Op::Add(i) => json!(["add", i]),
            Op::AddAll(v) => json!(["add_all", v]),
            Op::Gen(s) => json!(["on_generation", s]),
        }
    }
    fn from_json(v: &Value) -> Option<Op> {
        let a = v.as_array()?;
        Some(match a[0].as_str()? {
            "add" => Op::Add(a[1].as_u64()? as usize),
            "add_all" => Op::AddAll(a[1].as_array()?.iter().filter_map(|x| x.as_u64().map(|x| x as usize)).collect()),
            "on_generation" => Op::Gen(a[1].as_u64()? as usize),
            _ => return None,
        })
    }
}

/// Statistics alphabet: (termination estimate, speed, improvement ratio).
fn stats(idx: usize, generation: usize) -> HeuristicStatistics {
    let table: [(f64, u8, f64); 7] = [(0., 0, 0.), (0.5, 1, 0.2), (0.5, 2, 0.), (0.95, 0, 0.), (0.95, 2, 0.2), (0.2, 1, 0.), (0.5, 3, 0.)];
    let (estimate, speed, ratio) = table[idx % table.len()];
    let mut s = HeuristicStatistics::default();
    s.generation = generation;
    s.termination_estimate = estimate;
    s.improvement_1000_ratio = ratio;
    s.improvement_all_ratio = ratio;
    s.speed = match speed {
        0 => HeuristicSpeed::Unknown,
        1 => HeuristicSpeed::Moderate { average: 100., median: Some(10) },
        2 => HeuristicSpeed::Slow { ratio: 0.25, average: 1., median: Some(1000) },
        // very slow: selection size x ratio rounds to zero
        _ => HeuristicSpeed::Slow { ratio: 0.1, average: 1., median: Some(5000) },
    };
    s
}
const STATS: usize = 7;

#[derive(Clone, Debug)]
enum Kind {
    Greedy { selection: usize },
    Elitism { max: usize, selection: usize, custom_dedup: bool },
    Rosomaxa { initial: usize, elite: usize, node: usize, selection: usize, exploration_ratio: f64, rebalance: usize },
}

impl Kind {
    fn to_json(&self) -> Value {
        json!(format!("{self:?}"))
    }
}

fn objective() -> Arc<VectorObjective> {
    Arc::new(VectorObjective::new(Arc::new(|d: &[f64]| d[1]), Arc::new(|d: &[f64]| d[2..].to_vec())))
}

fn make(kind: &Kind, random: Arc<dyn Random>) -> Result<Pop, String> {
    let objective = objective();
    Ok(match kind {
        Kind::Greedy { selection } => Box::new(Greedy::new(objective, *selection, None)),
        Kind::Elitism { max, selection, custom_dedup } => {
            if *custom_dedup {
                Box::new(Elitism::new_with_dedup(objective, random, *max, *selection, Box::new(|_, a, b| a.fitness().next() == b.fitness().next())))
            } else {
                Box::new(Elitism::new(objective, random, *max, *selection))
            }
        }
        Kind::Rosomaxa { initial, elite, node, selection, exploration_ratio, rebalance } => {
            let env = Arc::new(Environment::new(random, None, Parallelism::new_with_cpus(1), Arc::new(|_| {}), false));
            let config = RosomaxaConfig {
                initial_size: *initial,
                selection_size: *selection,
                elite_size: *elite,
                node_size: *node,
                spread_factor: 0.75,
                distribution_factor: 0.9,
                rebalance_memory: *rebalance,
                exploration_ratio: *exploration_ratio,
            };
            Box::new(Rosomaxa::new(VectorRosomaxaContext, objective, env, config).map_err(|e| e.to_string())?)
        }
    })
}

struct Built {
    pop: Pop,
    /// (id, fitness) of everything offered so far
    offered: Vec<(f64, f64)>,
    phases: Vec<u8>,
    random: Arc<ScriptedRandom>,
}

fn phase_rank(p: SelectionPhase) -> u8 {
    match p {
        SelectionPhase::Initial => 0,
        SelectionPhase::Exploration => 1,
        SelectionPhase::Exploitation => 2,
    }
}

fn build(kind: &Kind, history: &[Op], policy: u64) -> Result<Built, String> {
    let alphabet = individuals();
    let fallback = if policy == 0 { Fallback::Default } else { Fallback::Stream(policy) };
    let random = Arc::new(ScriptedRandom::new(vec![], fallback));
    reseed(policy);
    install_policy(PlanPolicy::Sequential);
    let r = catch(|| -> Result<Built, String> {
        let mut pop = make(kind, random.clone())?;
        let mut offered = vec![];
        let mut phases = vec![phase_rank(pop.selection_phase())];
        let mut next_id = 1.;
        let mut generation = 0;
        let mut mk = |idx: usize, offered: &mut Vec<(f64, f64)>| {
            let (f, w) = alphabet[idx % alphabet.len()];
            let id = next_id;
            next_id += 1.;
            offered.push((id, FITNESS[f]));
            // data = [id, fitness, weights...]
            VectorSolution::new(vec![id, FITNESS[f], WEIGHTS[w][0], WEIGHTS[w][1]], FITNESS[f], WEIGHTS[w].to_vec())
        };
        for op in history {
            match op {
                Op::Add(i) => {
                    let ind = mk(*i, &mut offered);
                    pop.add(ind);
                }
                Op::AddAll(v) => {
                    let inds: Vec<VectorSolution> = v.iter().map(|i| mk(*i, &mut offered)).collect();
                    pop.add_all(inds);
                }
                Op::Gen(s) => {
                    generation += 1;
                    pop.on_generation(&stats(*s, generation));
                }
            }
            phases.push(phase_rank(pop.selection_phase()));
        }
        Ok(Built { pop, offered, phases, random: random.clone() })
    });
    uninstall_plan();
    match r {
        Ok(b) => b,
        Err(p) => Err(format!("panic: {p}")),
    }
}

fn check_state(kind: &Kind, b: &Built) -> Vec<(String, String)> {
    let mut errs = vec![];
    let pop = &b.pop;
    let ranked: Vec<&VectorSolution> = pop.ranked().collect();
    let fit = |s: &VectorSolution| s.fitness().next().unwrap();
    let id = |s: &VectorSolution| s.data[0];
    let known = |s: &VectorSolution| b.offered.iter().any(|(i, f)| *i == id(s) && f.to_bits() == fit(s).to_bits());
    // ranking sorted
    for w in ranked.windows(2) {
        if pop.cmp(w[0], w[1]) == Ordering::Greater {
            errs.push(("ranked-not-sorted".into(), format!("{} before {}", fit(w[0]), fit(w[1]))));
        }
    }
    // best is no worse than everything ever offered
    if !b.offered.is_empty() {
        match ranked.first() {
            None => errs.push(("best-lost".into(), format!("population is empty after {} offers", b.offered.len()))),
            Some(best) => {
                for (oid, of) in &b.offered {
                    let probe = VectorSolution::new(vec![*oid, *of, 1., 1.], *of, vec![1., 1.]);
                    if pop.cmp(best, &probe) == Ordering::Greater {
                        errs.push(("best-lost".into(), format!("first ranked has fitness {:?} but {:?} was offered (id {})", fit(best), of, oid)));
                        break;
                    }
                }
            }
        }
    }
    // sizes within bounds
    let bound = match kind {
        Kind::Greedy { .. } => 1,
        Kind::Elitism { max, .. } => *max,
        Kind::Rosomaxa { elite, .. } => *elite,
    };
    if pop.size() > bound || ranked.len() > bound {
        errs.push(("size-bound".into(), format!("size()={} ranked={} bound={bound}", pop.size(), ranked.len())));
    }
    if pop.size() != ranked.len() {
        errs.push(("size-vs-ranked".into(), format!("size()={} but ranked() yields {}", pop.size(), ranked.len())));
    }
    // ranked / all / select only yield offered individuals
    for s in ranked.iter() {
        if !known(s) {
            errs.push(("ranked-unknown-individual".into(), format!("id {} fitness {}", id(s), fit(s))));
        }
    }
    for s in pop.all() {
        if !known(s) {
            errs.push(("all-unknown-individual".into(), format!("id {} fitness {}", id(s), fit(s))));
        }
    }
    let selected: Vec<&VectorSolution> = pop.select().collect();
    for s in &selected {
        if !known(s) {
            errs.push(("select-unknown-individual".into(), format!("id {} fitness {}", id(s), fit(s))));
        }
    }
    if (pop.size() > 0) != !selected.is_empty() && !(pop.size() == 0 && selected.is_empty()) {
        errs.push(("select-empty".into(), format!("size()={} but select() yields {}", pop.size(), selected.len())));
    }
    // phases only move forward
    for w in b.phases.windows(2) {
        if w[1] < w[0] {
            errs.push(("phase-regression".into(), format!("phases {:?}", b.phases)));
            break;
        }
    }
    if !matches!(kind, Kind::Rosomaxa { .. }) && b.phases.iter().any(|p| *p != 2) {
        errs.push(("phase".into(), "greedy/elitism must always be in exploitation".into()));
    }
    if let Some(m) = b.random.mismatch() {
        errs.push(("machinery".into(), m));
    }
    errs
}

fn state_key(b: &Built) -> String {
    let ranked: Vec<String> = b.pop.ranked().map(|s| format!("{}:{:?}:{:?}", s.data[0] as i64 % 1, s.fitness().next().unwrap().to_bits(), s.data[2..].to_vec())).collect();
    let mut all: Vec<String> = b.pop.all().map(|s| format!("{:?}:{:?}", s.fitness().next().unwrap().to_bits(), s.data[2..].to_vec())).collect();
    all.sort();
    let best_offered = b.offered.iter().map(|(_, f)| *f).fold(f64::INFINITY, f64::min);
    format!("{ranked:?}|{all:?}|{}|{:?}|{}", b.pop.size(), b.phases.last(), best_offered.to_bits())
}

fn ops_alphabet(kind: &Kind, quick: bool) -> Vec<Op> {
    let n = individuals().len();
    let mut ops: Vec<Op> = (0..n).map(Op::Add).collect();
    // batches: empty, (worse, better), (better, even better), (equal twins), triple
    let idx_of = |f: usize, w: usize| individuals().iter().position(|x| *x == (f, w)).unwrap_or(0);
    ops.push(Op::AddAll(vec![]));
    ops.push(Op::AddAll(vec![idx_of(4, 0), idx_of(2, 0)]));
    ops.push(Op::AddAll(vec![idx_of(2, 0), idx_of(0, 0)]));
    ops.push(Op::AddAll(vec![idx_of(3, 0), idx_of(2, 0)]));
    ops.push(Op::AddAll(vec![idx_of(2, 0), idx_of(2, 0)]));
    ops.push(Op::AddAll(vec![idx_of(5, 0), idx_of(4, 0), idx_of(1, 0)]));
    ops.push(Op::AddAll(vec![idx_of(0, 0), idx_of(1, 0)]));
    let gens = match kind {
        Kind::Rosomaxa { .. } => STATS,
        _ => 3, // only the speed matters
    };
    for s in 0..gens {
        ops.push(Op::Gen(s));
    }
    if quick && matches!(kind, Kind::Rosomaxa { .. }) {
        // a thinner alphabet for the expensive population
        ops = ops.into_iter().enumerate().filter(|(i, op)| !matches!(op, Op::Add(_)) || i % 2 == 0).map(|(_, o)| o).collect();
    }
    ops
}

fn scenario(kind: &Kind, history: &[Op], policy: u64) -> Value {
    json!({"kind": kind.to_json(), "kind_spec": kind_spec(kind), "history": history.iter().map(|o| o.to_json()).collect::<Vec<_>>(), "policy": policy})
}

fn kind_spec(kind: &Kind) -> Value {
    match kind {
        Kind::Greedy { selection } => json!(["greedy", selection]),
        Kind::Elitism { max, selection, custom_dedup } => json!(["elitism", max, selection, custom_dedup]),
        Kind::Rosomaxa { initial, elite, node, selection, exploration_ratio, rebalance } => {
            json!(["rosomaxa", initial, elite, node, selection, exploration_ratio, rebalance])
        }
    }
}

fn kind_from_spec(v: &Value) -> Option<Kind> {
    let a = v.as_array()?;
    let n = |i: usize| a.get(i).and_then(|x| x.as_u64()).map(|x| x as usize);
    Some(match a[0].as_str()? {
        "greedy" => Kind::Greedy { selection: n(1)? },
        "elitism" => Kind::Elitism { max: n(1)?, selection: n(2)?, custom_dedup: a[3].as_bool()? },
        _ => Kind::Rosomaxa { initial: n(1)?, elite: n(2)?, node: n(3)?, selection: n(4)?, exploration_ratio: a[5].as_f64()?, rebalance: n(6)? },
    })
}

/// BFS with state merging (greedy / elitism): key = observable content.
fn bfs(kind: &Kind, depth: usize, quick: bool, report: &mut Report) {
    let ops = ops_alphabet(kind, quick);
    let policies: &[u64] = &[0, 1, 2];
    let mut seen: HashSet<String> = HashSet::new();
    let mut frontier: VecDeque<Vec<Op>> = VecDeque::new();
    frontier.push_back(vec![]);
    let (mut states, mut transitions) = (0u64, 0u64);
    let mut outcomes: HashSet<String> = HashSet::new();
    while let Some(hist) = frontier.pop_front() {
        if hist.len() >= depth {
            continue;
        }
        for op in &ops {
            let mut next = hist.clone();
            next.push(op.clone());
            let mut key0 = None;
            for &policy in policies {
                transitions += 1;
                match build(kind, &next, policy) {
                    Ok(b) => {
                        for (key, what) in check_state(kind, &b) {
                            report.violation(Violation::new(format!("{}:{key}", kind_name(kind)), what, scenario(kind, &next, policy)));
                        }
                        if policy == 0 {
                            key0 = Some(state_key(&b));
                        }
                        if outcomes.len() < 10_000 {
                            outcomes.insert(format!("{:?}", b.pop.ranked().map(|s| s.fitness().next().unwrap().to_bits()).collect::<Vec<_>>()));
                        }
                    }
                    Err(e) => report.violation(Violation::new(format!("{}:panic", kind_name(kind)), e, scenario(kind, &next, policy))),
                }
            }
            if let Some(k) = key0 {
                // the speed set by on_generation changes select(): keep it in the key via the last Gen op
                let last_gen = next.iter().rev().find_map(|o| if let Op::Gen(s) = o { Some(*s) } else { None });
                if seen.insert(format!("{k}|{last_gen:?}")) {
                    states += 1;
                    if states % 400 == 1 {
                        report.sample(scenario(kind, &next, 0));
                    }
                    frontier.push_back(next);
                }
            }
        }
    }
    report.add_count("states", states);
    report.add_count("transitions", transitions);
    report.add_count("traces_validated_against_impl", transitions);
    report.add_count("distinct_rankings", outcomes.len() as u64);
}

/// Full enumeration of histories (no merging) after canned prefixes which bring Rosomaxa into its later phases.
fn enumerate_rosomaxa(kind: &Kind, depth: usize, quick: bool, report: &mut Report) {
    let Kind::Rosomaxa { initial, .. } = kind else { return };
    let ops = ops_alphabet(kind, quick);
    let n = individuals().len();
    let prefixes: Vec<Vec<Op>> = vec![
        vec![],
        // fill the initial phase one by one, then tick: exploration
        (0..*initial).map(|i| Op::Add((i * 5 + 2) % n)).chain(std::iter::once(Op::Gen(0))).collect(),
        // fill by one batch with duplicates and an outlier
        vec![Op::AddAll((0..*initial + 1).map(|i| if i % 2 == 0 { 4 % n } else { (i * 3) % n }).collect()), Op::Gen(1)],
        // skip exploration
        vec![Op::Add(3 % n), Op::Gen(3)],
        // exploration then exploitation
        (0..*initial).map(|i| Op::Add((i * 2 + 1) % n)).chain([Op::Gen(0), Op::Gen(4)]).collect(),
    ];
    let policies: &[u64] = if quick { &[0, 1] } else { &[0, 1, 2] };
    let mut states: HashSet<String> = HashSet::new();
    let mut transitions = 0u64;
    for prefix in &prefixes {
        let mut layer: Vec<Vec<Op>> = vec![prefix.clone()];
        for _d in 0..=depth {
            let mut next_layer = vec![];
            for hist in &layer {
                for &policy in policies {
                    transitions += 1;
                    match build(kind, hist, policy) {
                        Ok(b) => {
                            for (key, what) in check_state(kind, &b) {
                                report.violation(Violation::new(format!("rosomaxa:{key}"), what, scenario(kind, hist, policy)));
                            }
                            states.insert(state_key(&b));
                        }
                        Err(e) => {
                            report.violation(Violation::new("rosomaxa:panic", e, scenario(kind, hist, policy)));
                        }
                    }
                }
                if hist.len() < prefix.len() + depth {
                    for op in &ops {
                        let mut n = hist.clone();
                        n.push(op.clone());
                        next_layer.push(n);
                    }
                }
            }
            layer = next_layer;
            if layer.is_empty() {
                break;
            }
        }
    }
    report.add_count("states", states.len() as u64);
    report.add_count("transitions", transitions);
    report.add_count("traces_validated_against_impl", transitions);
    report.sample(scenario(kind, &prefixes[1], 0));
}

fn kind_name(kind: &Kind) -> &'static str {
    match kind {
        Kind::Greedy { .. } => "greedy",
        Kind::Elitism { .. } => "elitism",
        Kind::Rosomaxa { .. } => "rosomaxa",
    }
}

fn kinds(tier: Tier) -> Vec<Kind> {
    let mut k = vec![Kind::Greedy { selection: 1 }, Kind::Greedy { selection: 2 }];
    for max in 1..=3 {
        for selection in 1..=3 {
            for custom_dedup in [false, true] {
                if tier.is_quick() && custom_dedup && selection != 2 {
                    continue;
                }
                k.push(Kind::Elitism { max, selection, custom_dedup });
            }
        }
    }
    for initial in tier.pick(vec![4], vec![4, 5]) {
        for elite in 1..=2 {
            for node in 1..=2 {
                for selection in tier.pick(vec![2, 8], vec![2, 4, 8]) {
                    for exploration_ratio in tier.pick(vec![0.9], vec![0.5, 0.9]) {
                        for rebalance in tier.pick(vec![2], vec![2, 10]) {
                            if tier.is_quick() && elite != node {
                                continue;
                            }
                            k.push(Kind::Rosomaxa { initial, elite, node, selection, exploration_ratio, rebalance });
                        }
                    }
                }
            }
        }
    }
    k
}

pub fn run(ctx: &RunCtx) -> Report {
    let mut report = Report::new("model_checking");
    let kinds = kinds(ctx.tier);
    let quick = ctx.tier.is_quick();
    let parts = par_map(ctx.threads, kinds.len(), |i| {
        let mut r = Report::new("model_checking");
        match &kinds[i] {
            k @ Kind::Rosomaxa { .. } => enumerate_rosomaxa(k, ctx.tier.pick(3, 4), quick, &mut r),
            k => bfs(k, ctx.tier.pick(5, 7), quick, &mut r),
        }
        r.add_count("configurations", 1);
        r
    });
    for p in parts {
        report.merge(p);
    }
    super::c08_solve::run_reseed_solves(ctx, &mut report);
    report.set("exhaustive", true);
    report.set(
        "rule",
        "greedy/elitism: BFS over all histories of {add(x) for 12 individuals, 7 batches incl. empty/improving/twins, on_generation(speed)} up to the depth \
         bound, states merged on observable content (ranked + all + size + phase + last speed), 3 random-answer policies per transition; rosomaxa: all \
         histories up to the depth bound after 5 canned prefixes reaching every phase, no merging; every state rebuilt by replay on the real population and \
         judged against the multiset of everything offered",
    );
    report.assume("individual alphabet: fitness {+0,-0,1,1.0000001,2,3} x 3 weight vectors; random answers: default/min, two pseudo-random streams");
    report
}

pub fn replay(_ctx: &RunCtx, scenario: &Value) -> Result<Vec<Violation>, String> {
    if scenario.get("part").and_then(|p| p.as_str()) == Some("solve") {
        return super::c08_solve::replay(scenario);
    }
    let kind = kind_from_spec(&scenario["kind_spec"]).ok_or("bad kind")?;
    let history: Vec<Op> = scenario["history"].as_array().ok_or("history")?.iter().filter_map(Op::from_json).collect();
    let policy = scenario["policy"].as_u64().unwrap_or(0);
    let mut out = vec![];
    match build(&kind, &history, policy) {
        Ok(b) => {
            for (key, what) in check_state(&kind, &b) {
                out.push(Violation::new(format!("{}:{key}", kind_name(&kind)), what, scenario.clone()));
            }
        }
        Err(e) => out.push(Violation::new(format!("{}:panic", kind_name(&kind)), e, scenario.clone())),
    }
    Ok(out)
}
