//! C06 — insertion evaluation agrees with brute-force simulation.
//!
//! Bounded-exhaustive: every feasible tour of up to 2/3 visits over 14 task templates on each of 6 vehicles (and, for the
//! vehicle with a start interval, three departure times); every job outside of the tour at every leg (`Concrete`) and
//! once with `Any`; judged by `Sim`.

use crate::corelab::*;
use crate::env::{Fallback, ScriptedRandom};
use crate::*;
use serde_json::{Value, json};
use rosomaxa::prelude::Random;
use std::collections::HashSet;
use std::sync::Arc;
use vrp_core::construction::heuristics::*;
use vrp_core::models::problem::Job;

fn visits_json(seq: &[Visit]) -> Value {
    json!(seq.iter().map(|v| json!([v.task, v.place, v.window])).collect::<Vec<_>>())
}

fn visits_from(v: &Value) -> Vec<Visit> {
    v.as_array()
        .map(|a| {
            a.iter()
                .filter_map(|x| {
                    let x = x.as_array()?;
                    Some(Visit { task: x[0].as_u64()? as usize, place: x[1].as_u64()? as usize, window: x[2].as_u64()? as usize })
                })
                .collect()
        })
        .unwrap_or_default()
}

/// Applies a success to the visiting sequence exactly as the library applies it to a tour (insert_at(index + 1) one by one).
pub fn apply_to_sequence(lab: &Lab, seq: &[Visit], success: &InsertionSuccess) -> Result<Vec<Visit>, String> {
    let mut out: Vec<Visit> = seq.to_vec();
    for (activity, index) in &success.activities {
        let single = activity.job.as_ref().ok_or("activity without job")?;
        let task = lab.task_of(single).ok_or("unknown single in success")?;
        let t = &lab.tasks[task];
        let place = activity.place.idx;
        let p = t.places.get(place).ok_or(format!("place index {place} out of range for {}", t.id))?;
        if p.loc != activity.place.location || p.service != activity.place.duration {
            return Err(format!("activity place (loc {}, duration {}) is not place {place} of {}", activity.place.location, activity.place.duration, t.id));
        }
        let window = p
            .windows
            .iter()
            .position(|(s, e)| *s == activity.place.time.start && *e == activity.place.time.end)
            .ok_or(format!("activity time window {:?} is not a window of place {place} of {}", activity.place.time, t.id))?;
        // tour index `index + 1` counts the start depot => position `index` in the job sequence
        if *index > out.len() {
            return Err(format!("insertion index {index} beyond the tour"));
        }
        out.insert(*index, Visit { task, place, window });
    }
    Ok(out)
}

struct Counters {
    evaluations: u64,
    successes: u64,
    failures: u64,
    complete_checked: u64,
}

fn check_tour(lab: &Lab, vehicle: usize, seq: &[Visit], departure: f64, report: &mut Report, cnt: &mut Counters) {
    let vt = &lab.vehicles[vehicle];
    let rc = lab.route(vehicle, seq, Some(departure));
    let in_tour: HashSet<usize> = seq.iter().map(|v| lab.tasks[v.task].job).collect();
    let legs = rc.route().tour.legs().count();
    let selector = BestResultSelector::default();
    let leg_selection = LegSelection::Exhaustive;
    for j in 0..lab.jobs.len() {
        if in_tour.contains(&j) {
            continue;
        }
        let job = &lab.jobs[j];
        let rc_for_eval = lab.route(vehicle, seq, Some(departure));
        let ictx = lab.context(vehicle, rc_for_eval, &[j]);
        // the route as the heuristic would see it: inside the context, or the registry's prototype for an empty tour
        let route_ref: &RouteContext = if seq.is_empty() {
            ictx.solution.registry.next_route().find(|r| std::sync::Arc::ptr_eq(&r.route().actor, &lab.actor(vehicle))).unwrap_or(&rc)
        } else {
            &ictx.solution.routes[0]
        };
        let eval_ctx = EvaluationContext { goal: &lab.problem.goal, job, leg_selection: &leg_selection, result_selector: &selector };
        let scen = |pos: Value| json!({"vehicle": vehicle, "tour": visits_json(seq), "departure": departure, "job": j, "position": pos, "timedep": vt.timedep});

        // soundness at every concrete leg
        for p in 0..legs.max(1) {
            cnt.evaluations += 1;
            let result = catch(|| eval_job_insertion_in_route(&ictx, &eval_ctx, route_ref, InsertionPosition::Concrete(p), InsertionResult::make_failure()));
            match result {
                Err(pn) => report.violation(Violation::new(format!("panic@{}", panic_site(&pn)), pn, scen(json!(p)))),
                Ok(InsertionResult::Success(success)) => {
                    cnt.successes += 1;
                    match apply_to_sequence(lab, seq, &success) {
                        Ok(new_seq) => {
                            let s = sim(&lab.tasks, vt, &new_seq, departure);
                            if !s.feasible {
                                report.violation(Violation::new(
                                    format!("unsound:{}{}", class_of(&s.why), if vt.timedep { ":timedep" } else { "" }),
                                    format!("evaluator accepts {} at leg {p} of {:?}, but the simulation of {:?} says: {}", job_name(lab, j), names(lab, seq), names(lab, &new_seq), s.why),
                                    scen(json!(p)),
                                ));
                            }
                            if matches!(job, Job::Single(_)) && success.activities.first().map(|(_, i)| *i) != Some(p) {
                                report.violation(Violation::new("position-ignored", format!("asked for leg {p}, got {:?}", success.activities.first().map(|(_, i)| *i)), scen(json!(p))));
                            }
                        }
                        Err(e) => report.violation(Violation::new("malformed-success", e, scen(json!(p)))),
                    }
                }
                Ok(InsertionResult::Failure(_)) => cnt.failures += 1,
            }
        }

        // Any position: soundness for every job, completeness for single-task jobs
        cnt.evaluations += 1;
        let any = catch(|| eval_job_insertion_in_route(&ictx, &eval_ctx, route_ref, InsertionPosition::Any, InsertionResult::make_failure()));
        let any = match any {
            Ok(r) => r,
            Err(pn) => {
                report.violation(Violation::new(format!("panic@{}", panic_site(&pn)), pn, scen(json!("any"))));
                continue;
            }
        };
        if let InsertionResult::Success(success) = &any {
            match apply_to_sequence(lab, seq, success) {
                Ok(new_seq) => {
                    let s = sim(&lab.tasks, vt, &new_seq, departure);
                    if !s.feasible {
                        report.violation(Violation::new(
                            format!("unsound:{}{}", class_of(&s.why), if vt.timedep { ":timedep" } else { "" }),
                            format!("evaluator (any position) puts {} into {:?} giving {:?}, simulation says: {}", job_name(lab, j), names(lab, seq), names(lab, &new_seq), s.why),
                            scen(json!("any")),
                        ));
                    }
                }
                Err(e) => report.violation(Violation::new("malformed-success", e, scen(json!("any")))),
            }
        }
        if let Job::Single(single) = job {
            let task = lab.task_of(single).unwrap();
            // brute force: any feasible (position, place, window)?
            let mut witness = None;
            'search: for p in 0..=seq.len() {
                for (pi, pl) in lab.tasks[task].places.iter().enumerate() {
                    for wi in 0..pl.windows.len() {
                        let mut candidate = seq.to_vec();
                        candidate.insert(p, Visit { task, place: pi, window: wi });
                        if sim(&lab.tasks, vt, &candidate, departure).feasible {
                            witness = Some((p, pi, wi));
                            break 'search;
                        }
                    }
                }
            }
            cnt.complete_checked += 1;
            if let (Some((p, pi, wi)), InsertionResult::Failure(f)) = (witness, &any) {
                let last_leg_open = !vt.closed && p == seq.len();
                // time-dependent routing: the library derives latest arrivals backwards with the travel time AT the latest arrival
                // (recorded finding); the failure is attributed to it only when that estimate rejects EVERY feasible placement
                // (a tour whose own arrivals lie behind the estimate makes the scan over the legs stop at the first leg)
                let tour_behind_estimate = vt.timedep && {
                    let s = sim(&lab.tasks, vt, seq, departure);
                    (0..seq.len()).any(|k| backward_estimate_rejects(lab, vt, seq, k, &s))
                };
                let explained_by_estimate = vt.timedep
                    && (tour_behind_estimate || (0..=seq.len()).all(|p| {
                        lab.tasks[task].places.iter().enumerate().all(|(pi, pl)| {
                            (0..pl.windows.len()).all(|wi| {
                                let mut candidate = seq.to_vec();
                                candidate.insert(p, Visit { task, place: pi, window: wi });
                                let s = sim(&lab.tasks, vt, &candidate, departure);
                                !s.feasible || backward_estimate_rejects(lab, vt, &candidate, p, &s)
                            })
                        })
                    }));
                report.violation(Violation::new(
                    if explained_by_estimate {
                        "incomplete:timedep:latest-arrival-estimate".to_string()
                    } else {
                        format!("incomplete:{}{}", if last_leg_open { "open-tour-last-leg" } else { "inner-leg" }, if lab.tasks[task].places.len() > 1 || lab.tasks[task].places[0].windows.len() > 1 { ":multi-window-job" } else { "" }) + if vt.timedep { ":timedep" } else { "" }
                    },
                    format!(
                        "evaluator reports failure (code {}) for {} into {:?} on {}, but the simulation finds position {p} place {pi} window {wi} feasible",
                        f.constraint, lab.tasks[task].id, names(lab, seq), vt.id
                    ),
                    scen(json!("any")),
                ));
            }
        }
    }
}

/// The library's backward pass: latest arrival of an activity = min(window end, latest arrival of the next one - travel time
/// looked up AT that latest arrival - service). True when the activity after position `p` of `w` arrives later than that.
fn backward_estimate_rejects(lab: &Lab, vt: &VehicleT, w: &[Visit], p: usize, s: &SimResult) -> bool {
    let n = w.len();
    let (mut next_latest, mut next_loc) = if vt.closed { (vt.end_latest, vt.end_loc) } else { (f64::MAX, 0) };
    if vt.closed && s.end_arrival > next_latest {
        return true;
    }
    // the chain is followed down to the inserted activity itself: the library derives the latest arrival at the target from
    // the latest arrival at the next activity in the same way
    for k in (p..n).rev() {
        let pl = &lab.tasks[w[k].task].places[w[k].place];
        let we = pl.windows[w[k].window].1;
        let latest = if next_latest == f64::MAX { we } else { we.min(next_latest - travel(vt, pl.loc, next_loc, next_latest) - pl.service) };
        if (k == p || k == p + 1) && s.arrivals[k] > latest {
            return true;
        }
        next_latest = latest;
        next_loc = pl.loc;
    }
    false
}

fn class_of(why: &str) -> &'static str {
    if why.contains("load") {
        "capacity"
    } else if why.contains("window") {
        "time-window"
    } else if why.contains("shift end") {
        "shift-end"
    } else if why.contains("multi") {
        "multi-order"
    } else {
        "other"
    }
}

fn names(lab: &Lab, seq: &[Visit]) -> Vec<String> {
    seq.iter().map(|v| format!("{}#{}w{}", lab.tasks[v.task].id, v.place, v.window)).collect()
}

fn job_name(lab: &Lab, j: usize) -> String {
    lab.tasks.iter().filter(|t| t.job == j).map(|t| t.id).collect::<Vec<_>>().join("+")
}

fn departures(v: &VehicleT) -> Vec<f64> {
    if v.start_latest > v.start_earliest { vec![v.start_earliest, (v.start_earliest + v.start_latest) / 2., v.start_latest] } else { vec![v.start_earliest] }
}

/// Long tours: filler services in location order, every regular job evaluated at every concrete leg and with Any under the
/// STOCHASTIC leg selection (sampled once more than 32 / 48 legs are left) for several random streams: whatever the
/// selection returns has to simulate feasible - in particular the later part of a multi-task job never lands before the earlier one.
fn long_tours(ctx: &RunCtx, report: &mut Report) {
    let n_fill = 64;
    let regular = tasks().len();
    let streams: Vec<u64> = ctx.tier.pick(vec![0, 1, 2, 3], vec![0, 1, 2, 3, 4, 5, 6, 7, 8, 9, 10, 11]);
    let lengths: Vec<usize> = ctx.tier.pick(vec![20, 36, 52, 64], vec![16, 20, 28, 36, 44, 52, 58, 64]);
    let mut work: Vec<(usize, usize, u64)> = vec![];
    for v in [0usize, 2, 6] {
        for l in &lengths {
            for s in &streams {
                work.push((v, *l, *s));
            }
        }
    }
    let parts = par_map(ctx.threads, work.len(), |wi| {
        let (vehicle, len, stream) = work[wi];
        let lab = Lab::with_tasks(GoalKind::Cost, tasks_with_fillers(n_fill));
        let mut r = Report::new("exploration");
        let vt = lab.vehicles[vehicle].clone();
        let seq: Vec<Visit> = (0..len).map(|i| Visit { task: regular + i * n_fill / len, place: 0, window: 0 }).collect();
        let departure = vt.start_earliest;
        if !sim(&lab.tasks, &vt, &seq, departure).feasible {
            r.error(format!("long tour of {len} fillers is infeasible on {}", vt.id));
            return r;
        }
        let rc = lab.route(vehicle, &seq, Some(departure));
        let legs = rc.route().tour.legs().count();
        let selector = BestResultSelector::default();
        let random: Arc<dyn Random> = Arc::new(ScriptedRandom::new(vec![], if stream == 0 { Fallback::Default } else { Fallback::Stream(stream) }));
        let leg_selection = LegSelection::Stochastic(random);
        let regular_jobs: Vec<usize> = (0..lab.jobs.len()).filter(|j| (0..regular).any(|t| lab.tasks[t].job == *j)).collect();
        for &j in &regular_jobs {
            let job = &lab.jobs[j];
            let ictx = lab.context(vehicle, lab.route(vehicle, &seq, Some(departure)), &[j]);
            let route_ref = &ictx.solution.routes[0];
            let eval_ctx = EvaluationContext { goal: &lab.problem.goal, job, leg_selection: &leg_selection, result_selector: &selector };
            let positions: Vec<InsertionPosition> = (0..legs).map(InsertionPosition::Concrete).chain(std::iter::once(InsertionPosition::Any)).collect();
            for position in positions {
                let pos_json = match position {
                    InsertionPosition::Concrete(p) => json!(p),
                    _ => json!("any"),
                };
                let scen = json!({"part": "long", "vehicle": vehicle, "length": len, "stream": stream, "job": j, "position": pos_json});
                r.add_count("long_tour_evaluations", 1);
                r.add_count("evaluations", 1);
                match catch(|| eval_job_insertion_in_route(&ictx, &eval_ctx, route_ref, position, InsertionResult::make_failure())) {
                    Err(pn) => r.violation(Violation::new(format!("panic@{}", panic_site(&pn)), pn, scen)),
                    Ok(InsertionResult::Success(success)) => {
                        r.add_count("long_tour_successes", 1);
                        match apply_to_sequence(&lab, &seq, &success) {
                            Ok(new_seq) => {
                                let s = sim(&lab.tasks, &vt, &new_seq, departure);
                                if !s.feasible {
                                    r.violation(Violation::new(
                                        format!("unsound:{}:long-tour", class_of(&s.why)),
                                        format!("stochastic leg selection (stream {stream}) puts {} into a tour of {len} fillers at {:?}; simulation says: {}", job_name(&lab, j), success.activities.iter().map(|(_, i)| *i).collect::<Vec<_>>(), s.why),
                                        scen,
                                    ));
                                }
                            }
                            Err(e) => r.violation(Violation::new("malformed-success:long-tour", e, scen)),
                        }
                    }
                    Ok(InsertionResult::Failure(_)) => r.add_count("long_tour_failures", 1),
                }
            }
        }
        r
    });
    for p in parts {
        report.merge(p);
    }
}

pub fn run(ctx: &RunCtx) -> Report {
    let mut report = Report::new("exploration");
    long_tours(ctx, &mut report);
    if report.get_count("long_tour_successes") == 0 {
        report.error("vacuous: no insertion into a long tour succeeded");
    }
    let max_len = ctx.tier.pick(4, 7);
    let all = sequences(&tasks(), max_len);
    let nveh = vehicles().len();
    // work items: (vehicle, chunk of sequences)
    let chunk = 200;
    // second pass: the same tours under time-dependent routing data (every leg which starts at TD_AT or later takes twice as long)
    let nchunks = all.len().div_ceil(chunk);
    let chunks: Vec<(usize, usize, bool)> = [false, true].into_iter().flat_map(|td| (0..nveh).flat_map(move |v| (0..nchunks).map(move |c| (v, c, td)))).collect();
    let parts = par_map(ctx.threads, chunks.len(), |ci| {
        let (vehicle, c, td) = chunks[ci];
        let lab = if td { Lab::timedep(GoalKind::Cost) } else { Lab::new(GoalKind::Cost) };
        let mut r = Report::new("exploration");
        let mut cnt = Counters { evaluations: 0, successes: 0, failures: 0, complete_checked: 0 };
        let vt = lab.vehicles[vehicle].clone();
        for seq in all.iter().skip(c * chunk).take(chunk) {
            for departure in departures(&vt) {
                // an empty tour is evaluated on the registry's prototype, which always departs at the earliest time
                if seq.is_empty() && departure != vt.start_earliest {
                    continue;
                }
                r.add_count("tours_generated", 1);
                if !sim(&lab.tasks, &vt, seq, departure).feasible {
                    continue;
                }
                r.add_count("tours_feasible", 1);
                if td {
                    r.add_count("tours_feasible_timedep", 1);
                }
                check_tour(&lab, vehicle, seq, departure, &mut r, &mut cnt);
                if r.get_count("tours_feasible") % 97 == 1 {
                    r.sample(json!({"vehicle": vt.id, "tour": names(&lab, seq), "departure": departure}));
                }
            }
        }
        r.add_count("evaluations", cnt.evaluations);
        r.add_count("eval_success", cnt.successes);
        r.add_count("eval_failure", cnt.failures);
        r.add_count("completeness_checks", cnt.complete_checked);
        r
    });
    for p in parts {
        report.merge(p);
    }
    let feasible = report.get_count("tours_feasible");
    report.set("distinct_nontrivial", feasible);
    report.set("exhaustive", true);
    if report.get_count("eval_success") == 0 || report.get_count("eval_failure") == 0 {
        report.error("vacuous: evaluator never succeeded or never failed");
    }
    report.set(
        "rule",
        "tours = every visiting sequence of <= 2 (quick) / 3 (thorough) tasks over 14 templates (static/dynamic demand, point/two/late windows, two places, \
         service 0/5) with every place and window choice, on 6 vehicles (closed/open, loose/tight end, capacity 1/2, start interval with 3 departures), kept \
         when the simulator finds them feasible and built by direct tour edits + accept_route_state; for each: every outside job at every leg (Concrete) and \
         with Any (exhaustive legs, best selector); distinct = feasible (vehicle, tour, departure) triples",
    );
    report.assume("feasibility is judged at the tour's current departure time; the simulator knows time windows, shift end, capacity and multi-job order");
    report
}

pub fn replay(_ctx: &RunCtx, scenario: &Value) -> Result<Vec<Violation>, String> {
    if scenario["part"] == "long" {
        // the long-tour axis is small: it is run again as a whole (thorough parameters contain the quick ones)
        let mut r = Report::new("exploration");
        let ctx = RunCtx { tier: Tier::Thorough, .._ctx.clone() };
        long_tours(&ctx, &mut r);
        let same = |v: &Violation| ["vehicle", "length", "stream", "job", "position"].iter().all(|k| v.scenario[*k] == scenario[*k]);
        return Ok(r.violations.into_iter().filter(same).collect());
    }
    let lab = if scenario["timedep"].as_bool().unwrap_or(false) { Lab::timedep(GoalKind::Cost) } else { Lab::new(GoalKind::Cost) };
    let vehicle = scenario["vehicle"].as_u64().ok_or("vehicle")? as usize;
    let seq = visits_from(&scenario["tour"]);
    let departure = scenario["departure"].as_f64().unwrap_or(0.);
    let mut r = Report::new("exploration");
    let mut cnt = Counters { evaluations: 0, successes: 0, failures: 0, complete_checked: 0 };
    check_tour(&lab, vehicle, &seq, departure, &mut r, &mut cnt);
    let job = scenario["job"].as_u64();
    Ok(r.violations.into_iter().filter(|v| job.is_none() || v.scenario["job"].as_u64() == job).collect())
}
