//! C13 — scientific instance files are read faithfully.
//!
//! Instance generator over the three grammars (all instances of a finite grid), printed as text, parsed with the real
//! readers and compared field by field with the generating model; complete solutions written as text and read back.

use crate::*;
use serde_json::{Value, json};
use std::io::{BufReader, BufWriter};
use std::sync::Arc;
use vrp_core::construction::features::{JobDemandDimension, VehicleCapacityDimension};
use vrp_core::models::common::*;
use vrp_core::models::problem::*;
use vrp_core::models::solution::{Activity, Registry, Route, Tour};
use vrp_core::prelude::*;
use vrp_scientific::common::read_init_solution;
use vrp_scientific::lilim::LilimProblem;
use vrp_scientific::solomon::{SolomonProblem, SolomonSolution};
use vrp_scientific::tsplib::{TsplibProblem, TsplibSolution};

#[derive(Clone, Debug)]
struct Customer {
    id: usize,
    xy: (i32, i32),
    demand: i32,
    tw: (i32, i32),
    service: i32,
    /// Li&Lim: id of the paired customer
    pair: usize,
}

#[derive(Clone, Debug)]
struct Instance {
    vehicles: usize,
    capacity: i32,
    depot: Customer,
    customers: Vec<Customer>,
}

impl Instance {
    fn to_json(&self) -> Value {
        json!({
            "vehicles": self.vehicles, "capacity": self.capacity,
            "depot": [self.depot.id, self.depot.xy.0, self.depot.xy.1, self.depot.tw.0, self.depot.tw.1],
            "customers": self.customers.iter().map(|c| json!([c.id, c.xy.0, c.xy.1, c.demand, c.tw.0, c.tw.1, c.service, c.pair])).collect::<Vec<_>>()
        })
    }
    fn from_json(v: &Value) -> Option<Instance> {
        let n = |x: &Value| x.as_i64();
        let d = v["depot"].as_array()?;
        Some(Instance {
            vehicles: v["vehicles"].as_u64()? as usize,
            capacity: v["capacity"].as_i64()? as i32,
            depot: Customer {
                id: n(&d[0])? as usize,
                xy: (n(&d[1])? as i32, n(&d[2])? as i32),
                demand: 0,
                tw: (n(&d[3])? as i32, n(&d[4])? as i32),
                service: 0,
                pair: 0,
            },
            customers: v["customers"]
                .as_array()?
                .iter()
                .filter_map(|c| {
                    let c = c.as_array()?;
                    Some(Customer {
                        id: n(&c[0])? as usize,
                        xy: (n(&c[1])? as i32, n(&c[2])? as i32),
                        demand: n(&c[3])? as i32,
                        tw: (n(&c[4])? as i32, n(&c[5])? as i32),
                        service: n(&c[6])? as i32,
                        pair: n(&c[7])? as usize,
                    })
                })
                .collect(),
        })
    }
}

fn print_solomon(i: &Instance) -> String {
    let mut s = String::from("VERIF\n\nVEHICLE\nNUMBER     CAPACITY\n");
    s += &format!("  {}          {}\n", i.vehicles, i.capacity);
    s += "\nCUSTOMER\nCUST NO.  XCOORD.   YCOORD.    DEMAND   READY TIME  DUE DATE   SERVICE   TIME\n\n";
    let line = |c: &Customer| format!("  {:>3}  {:>5}  {:>5}  {:>5}  {:>6}  {:>6}  {:>5}\n", c.id, c.xy.0, c.xy.1, c.demand, c.tw.0, c.tw.1, c.service);
    s += &line(&i.depot);
    for c in &i.customers {
        s += &line(c);
    }
    s
}

fn print_lilim(i: &Instance) -> String {
    let mut s = format!("{}\t{}\t1\n", i.vehicles, i.capacity);
    let line = |c: &Customer, pickup: usize, delivery: usize| {
        format!("{}\t{}\t{}\t{}\t{}\t{}\t{}\t{}\t{}\n", c.id, c.xy.0, c.xy.1, c.demand, c.tw.0, c.tw.1, c.service, pickup, delivery)
    };
    s += &line(&i.depot, 0, 0);
    for c in &i.customers {
        // pickup rows name the delivery sibling in the last column, delivery rows name the pickup in the one before
        if c.demand > 0 {
            s += &line(c, 0, c.pair);
        } else {
            s += &line(c, c.pair, 0);
        }
    }
    s
}

fn print_tsplib(i: &Instance, float_coords: bool) -> String {
    let dim = i.customers.len() + 1;
    let mut s = format!(
        "NAME : verif\nCOMMENT : (generated)\nTYPE : CVRP\nDIMENSION : {dim}\nEDGE_WEIGHT_TYPE : EUC_2D\nCAPACITY : {}\nNODE_COORD_SECTION\n",
        i.capacity
    );
    let mut all: Vec<&Customer> = i.customers.iter().collect();
    all.push(&i.depot);
    all.sort_by_key(|c| c.id);
    for c in &all {
        if float_coords {
            s += &format!(" {} {}.00000 {}.00000\n", c.id, c.xy.0, c.xy.1);
        } else {
            s += &format!(" {} {} {}\n", c.id, c.xy.0, c.xy.1);
        }
    }
    s += "DEMAND_SECTION\n";
    for c in &all {
        s += &format!("{} {}\n", c.id, c.demand);
    }
    s += &format!("DEPOT_SECTION\n {}\n -1\nEOF\n", i.depot.id);
    s
}

#[derive(Clone, Copy, Debug, PartialEq, Eq)]
enum Format {
    Solomon,
    Lilim,
    Tsplib,
}

fn euclid(a: (i32, i32), b: (i32, i32), rounded: bool) -> f64 {
    let (dx, dy) = ((a.0 - b.0) as f64, (a.1 - b.1) as f64);
    let d = (dx * dx + dy * dy).sqrt();
    if rounded { d.round() } else { d }
}

struct ParsedSingle {
    id: Option<String>,
    location: usize,
    duration: f64,
    tw: (f64, f64),
    demand: Option<Demand<SingleDimLoad>>,
}

fn parse_single(s: &Single) -> Result<ParsedSingle, String> {
    if s.places.len() != 1 {
        return Err(format!("{} places", s.places.len()));
    }
    let p = &s.places[0];
    let tw = match p.times.as_slice() {
        [TimeSpan::Window(w)] => (w.start, w.end),
        _ => return Err("unexpected time spans".into()),
    };
    Ok(ParsedSingle {
        id: s.dimens.get_job_id().cloned(),
        location: p.location.ok_or("no location")?,
        duration: p.duration,
        tw,
        demand: s.dimens.get_job_demand::<SingleDimLoad>().cloned(),
    })
}

fn demand_tuple(d: &Option<Demand<SingleDimLoad>>) -> Option<(i32, i32, i32, i32)> {
    d.as_ref().map(|d| (d.pickup.0.value, d.pickup.1.value, d.delivery.0.value, d.delivery.1.value))
}

/// Compares the core problem with the generating instance; returns (key, message) list.
fn compare(problem: &Problem, inst: &Instance, format: Format, rounded: bool) -> Vec<(String, String)> {
    let mut errs: Vec<(String, String)> = vec![];
    let f = format!("{format:?}").to_lowercase();
    let mut err = |k: &str, m: String| errs.push((format!("{f}:{k}"), m));

    // fleet
    let expected_vehicles = if format == Format::Tsplib { inst.customers.len() + 1 } else { inst.vehicles };
    if problem.fleet.vehicles.len() != expected_vehicles {
        err("fleet-size", format!("{} vehicles, expected {expected_vehicles}", problem.fleet.vehicles.len()));
    }
    let transport = &problem.transport;
    let profile = Profile::default();
    let mut depot_loc = None;
    for v in problem.fleet.vehicles.iter() {
        let cap = v.dimens.get_vehicle_capacity::<SingleDimLoad>().map(|c| c.value);
        if cap != Some(inst.capacity) {
            err("capacity", format!("vehicle capacity {cap:?}, expected {}", inst.capacity));
        }
        if v.details.len() != 1 {
            err("vehicle-details", format!("{} details", v.details.len()));
            continue;
        }
        let d = &v.details[0];
        let (Some(start), Some(end)) = (d.start.as_ref(), d.end.as_ref()) else {
            err("depot", "vehicle without start or end".into());
            continue;
        };
        if start.location != end.location {
            err("depot", "start and end differ".into());
        }
        depot_loc = Some(start.location);
        if format != Format::Tsplib {
            if start.time.earliest != Some(inst.depot.tw.0 as f64) || end.time.latest != Some(inst.depot.tw.1 as f64) {
                err("depot-window", format!("shift [{:?}, {:?}] expected {:?}", start.time.earliest, end.time.latest, inst.depot.tw));
            }
        }
    }
    let Some(depot_loc) = depot_loc else { return errs };

    // jobs: map every single to a customer by id
    let mut singles: Vec<(ParsedSingle, Option<usize>)> = vec![]; // (single, multi index)
    for (ji, job) in problem.jobs.all().iter().enumerate() {
        match job {
            Job::Single(s) => match parse_single(s) {
                Ok(p) => singles.push((p, None)),
                Err(e) => err("job-shape", e),
            },
            Job::Multi(m) => {
                for s in &m.jobs {
                    match parse_single(s) {
                        Ok(p) => singles.push((p, Some(ji))),
                        Err(e) => err("job-shape", e),
                    }
                }
            }
        }
    }
    if singles.len() != inst.customers.len() {
        err("customer-count", format!("{} customer tasks, expected {}", singles.len(), inst.customers.len()));
    }
    let id_of = |c: &Customer| -> String {
        match format {
            Format::Solomon => c.id.to_string(),
            Format::Lilim => format!("c{}", c.id),
            Format::Tsplib => (c.id - 1).to_string(),
        }
    };
    let mut locs: Vec<(usize, (i32, i32))> = vec![(depot_loc, inst.depot.xy)];
    let mut multi_of: std::collections::HashMap<usize, usize> = Default::default();
    for c in &inst.customers {
        // identify the task: by id when ids are present, by (coordinates via distance to depot, window, service) otherwise
        let by_id: Vec<&(ParsedSingle, Option<usize>)> = singles.iter().filter(|(p, _)| p.id.as_deref() == Some(id_of(c).as_str())).collect();
        let found = match by_id.len() {
            1 => by_id[0],
            0 => {
                err("customer-id", format!("no task with id '{}' (ids present: {:?})", id_of(c), singles.iter().map(|(p, _)| p.id.clone()).collect::<Vec<_>>()));
                continue;
            }
            _ => {
                err("customer-id", format!("id '{}' appears {} times", id_of(c), by_id.len()));
                continue;
            }
        };
        let (p, multi) = found;
        locs.push((p.location, c.xy));
        if let Some(m) = multi {
            multi_of.insert(c.id, *m);
        }
        let exp_tw = if format == Format::Tsplib { (0., f64::MAX) } else { (c.tw.0 as f64, c.tw.1 as f64) };
        if p.tw != exp_tw {
            err("time-window", format!("customer {}: window {:?}, expected {:?}", c.id, p.tw, exp_tw));
        }
        let exp_service = if format == Format::Tsplib { 0. } else { c.service as f64 };
        if p.duration != exp_service {
            err("service-time", format!("customer {}: service {}, expected {}", c.id, p.duration, exp_service));
        }
        let exp_demand = match format {
            Format::Solomon | Format::Tsplib => (0, 0, c.demand, 0),
            Format::Lilim if c.demand > 0 => (0, c.demand, 0, 0),
            Format::Lilim => (0, 0, 0, -c.demand),
        };
        if demand_tuple(&p.demand) != Some(exp_demand) {
            err(
                "demand",
                format!(
                    "customer {}: demand (static pickup, dynamic pickup, static delivery, dynamic delivery) = {:?}, expected {:?}",
                    c.id,
                    demand_tuple(&p.demand),
                    exp_demand
                ),
            );
        }
        match (format, multi) {
            (Format::Lilim, None) => err("pairing", format!("customer {} is not part of a pickup-delivery pair", c.id)),
            (Format::Solomon | Format::Tsplib, Some(_)) => err("pairing", format!("customer {} unexpectedly inside a multi job", c.id)),
            _ => {}
        }
    }
    if format == Format::Lilim {
        for c in &inst.customers {
            if let (Some(a), Some(b)) = (multi_of.get(&c.id), multi_of.get(&c.pair)) {
                if a != b {
                    err("pairing", format!("customer {} and its sibling {} are in different jobs", c.id, c.pair));
                }
            }
        }
        // pickup precedes delivery inside the multi job
        for job in problem.jobs.all().iter() {
            if let Job::Multi(m) = job {
                let d: Vec<_> = m.jobs.iter().map(|s| demand_tuple(&s.dimens.get_job_demand::<SingleDimLoad>().cloned())).collect();
                if d.len() == 2 && d.iter().all(|x| x.is_some()) {
                    let (first, second) = (d[0].unwrap(), d[1].unwrap());
                    if !(first.1 > 0 && second.3 > 0 && first.1 == second.3) {
                        err("pairing", format!("multi job parts are not (pickup d, delivery d): {first:?} {second:?}"));
                    }
                }
            }
        }
    }
    // matrix
    for (la, ca) in &locs {
        for (lb, cb) in &locs {
            let e = euclid(*ca, *cb, rounded);
            let got = (transport.distance_approx(&profile, *la, *lb), transport.duration_approx(&profile, *la, *lb));
            if (got.0 - e).abs() > 1e-9 || (got.1 - e).abs() > 1e-9 {
                err("distance", format!("{ca:?}->{cb:?}: distance/duration {got:?}, expected {e}"));
            }
        }
    }
    errs
}

fn parse(format: Format, text: &str, rounded: bool) -> Result<Result<Problem, String>, String> {
    let text = text.to_string();
    catch(move || {
        match format {
            Format::Solomon => text.read_solomon(rounded),
            Format::Lilim => text.read_lilim(rounded),
            Format::Tsplib => text.read_tsplib(rounded),
        }
        .map_err(|e| e.to_string())
    })
}

/// Reads the instance through the command line's format table (vrp-cli `get_formats`), i.e. from a file.
fn parse_via_cli(format: Format, text: &str, rounded: bool) -> Result<Result<Problem, String>, String> {
    let dir = std::path::PathBuf::from(VERIF_ROOT).join("target").join("tmp");
    let _ = std::fs::create_dir_all(&dir);
    let path = dir.join(format!("c13-{}-{:?}.txt", std::process::id(), std::thread::current().id()));
    std::fs::write(&path, text).map_err(|e| e.to_string())?;
    let name = match format {
        Format::Solomon => "solomon",
        Format::Lilim => "lilim",
        Format::Tsplib => "tsplib",
    };
    let result = catch(|| {
        let random: Arc<dyn Random> = Arc::new(DefaultRandom::new_repeatable());
        let formats = vrp_cli::extensions::solve::formats::get_formats(rounded, random);
        let (reader, _, _, _) = formats.get(name).ok_or_else(|| format!("no format {name}"))?;
        let file = std::fs::File::open(&path).map_err(|e| e.to_string())?;
        (reader.0)(file, None).map_err(|e| e.to_string())
    });
    let _ = std::fs::remove_file(&path);
    result
}

fn check_instance(inst: &Instance, format: Format, variant: usize, report: &mut Report) {
    let text = match format {
        Format::Solomon => print_solomon(inst),
        Format::Lilim => print_lilim(inst),
        Format::Tsplib => print_tsplib(inst, variant == 1),
    };
    for rounded in [false, true] {
        report.add_count("evaluations", 1);
        report.add_count("parses", 1);
        let scen = json!({"part": "read", "format": format!("{format:?}"), "variant": variant, "rounded": rounded, "instance": inst.to_json()});
        match parse(format, &text, rounded) {
            Ok(Ok(problem)) => {
                for (key, what) in compare(&problem, inst, format, rounded) {
                    report.violation(Violation::new(key, what, scen.clone()));
                }
                if format != Format::Lilim && !rounded {
                    check_solutions(&Arc::new(problem), inst, format, report, &scen);
                }
            }
            Ok(Err(e)) => report.violation(Violation::new(format!("{}:rejected", format!("{format:?}").to_lowercase()), e, scen.clone())),
            Err(p) => report.violation(Violation::new(format!("{}:panic@{}", format!("{format:?}").to_lowercase(), panic_site(&p)), p, scen.clone())),
        }
        // the same instance through the command line's format table
        report.add_count("evaluations", 1);
        report.add_count("cli_parses", 1);
        match parse_via_cli(format, &text, rounded) {
            Ok(Ok(problem)) => {
                for (key, what) in compare(&problem, inst, format, rounded) {
                    report.violation(Violation::new(format!("cli:{key}"), what, scen.clone()));
                }
            }
            Ok(Err(e)) => report.violation(Violation::new(format!("cli:{}:rejected", format!("{format:?}").to_lowercase()), e, scen)),
            Err(p) => report.violation(Violation::new(format!("cli:{}:panic@{}", format!("{format:?}").to_lowercase(), panic_site(&p)), p, scen)),
        }
    }
}

/// All set partitions of 0..n into ordered routes with every order inside a route (complete solutions).
fn all_solutions(n: usize, max_routes: usize) -> Vec<Vec<Vec<usize>>> {
    fn rec(item: usize, n: usize, routes: &mut Vec<Vec<usize>>, max_routes: usize, out: &mut Vec<Vec<Vec<usize>>>) {
        if item == n {
            out.push(routes.clone());
            return;
        }
        for r in 0..routes.len() {
            for pos in 0..=routes[r].len() {
                routes[r].insert(pos, item);
                rec(item + 1, n, routes, max_routes, out);
                routes[r].remove(pos);
            }
        }
        if routes.len() < max_routes {
            routes.push(vec![item]);
            rec(item + 1, n, routes, max_routes, out);
            routes.pop();
        }
    }
    let mut out = vec![];
    rec(0, n, &mut vec![], max_routes, &mut out);
    out
}

fn check_solutions(problem: &Arc<Problem>, inst: &Instance, format: Format, report: &mut Report, scen: &Value) {
    let jobs: Vec<Job> = problem.jobs.all().iter().cloned().collect();
    let n = jobs.len();
    if n == 0 || n > 4 {
        return;
    }
    let id = |j: &Job| j.dimens().get_job_id().cloned().unwrap_or_default();
    let vehicles = problem.fleet.actors.len();
    for routes in all_solutions(n, vehicles) {
        report.add_count("evaluations", 1);
        report.add_count("solution_round_trips", 1);
        let expected: Vec<Vec<String>> = routes.iter().map(|r| r.iter().map(|j| id(&jobs[*j])).collect()).collect();
        let r = catch(|| -> Result<Vec<Vec<String>>, String> {
            let random: Arc<dyn Random> = Arc::new(DefaultRandom::new_repeatable());
            let mut registry = Registry::new(&problem.fleet, random.clone());
            let mut sol_routes = vec![];
            for r in &routes {
                let actor = registry.next().next().ok_or("no actor")?;
                registry.use_actor(&actor);
                let mut tour = Tour::new(&actor);
                for j in r {
                    let single = jobs[*j].to_single().clone();
                    let place = &single.places[0];
                    tour.insert_last(Activity {
                        place: vrp_core::models::solution::Place {
                            idx: 0,
                            location: place.location.unwrap(),
                            duration: place.duration,
                            time: place.times[0].as_time_window().unwrap(),
                        },
                        schedule: Schedule::new(0., 0.),
                        job: Some(single),
                        commute: None,
                    });
                }
                sol_routes.push(Route { actor, tour });
            }
            let solution = Solution { cost: 12.5, registry, routes: sol_routes, unassigned: Default::default(), telemetry: None };
            let mut buf = BufWriter::new(Vec::new());
            match format {
                Format::Solomon => solution.write_solomon(&mut buf).map_err(|e| e.to_string())?,
                _ => solution.write_tsplib(&mut buf).map_err(|e| e.to_string())?,
            }
            let bytes = buf.into_inner().map_err(|e| e.to_string())?;
            let back = read_init_solution(BufReader::new(bytes.as_slice()), problem.clone(), random).map_err(|e| e.to_string())?;
            if !back.unassigned.is_empty() {
                return Err(format!("{} jobs unassigned after reading back a complete solution", back.unassigned.len()));
            }
            // every route must be driven by a distinct actor
            let mut actors: Vec<*const Actor> = back.routes.iter().map(|r| Arc::as_ptr(&r.actor)).collect();
            actors.sort();
            actors.dedup();
            if actors.len() != back.routes.len() {
                return Err("two routes read back on the same vehicle".into());
            }
            Ok(back
                .routes
                .iter()
                .map(|r| r.tour.all_activities().filter_map(|a| a.retrieve_job()).map(|j| j.dimens().get_job_id().cloned().unwrap_or_default()).collect())
                .collect())
        });
        let scen2 = json!({"part": "solution", "routes": expected, "base": scen});
        let f = format!("{format:?}").to_lowercase();
        match r {
            Ok(Ok(got)) => {
                if got != expected {
                    report.violation(Violation::new(format!("{f}:solution-round-trip"), format!("routes {got:?}, expected {expected:?}"), scen2));
                }
            }
            Ok(Err(e)) => report.violation(Violation::new(format!("{f}:solution-round-trip-error"), e, scen2)),
            Err(p) => report.violation(Violation::new(format!("{f}:solution-panic@{}", panic_site(&p)), p, scen2)),
        }
    }
    let _ = inst;
}

/// Enumerates instances: customers drawn from small attribute alphabets.
fn instances(ctx: &RunCtx, format: Format) -> Vec<Instance> {
    let coords: Vec<(i32, i32)> = vec![(0, 0), (3, 4), (7, 0), (4, 7), (3, 0)];
    let demands = [1, 2, 5];
    let windows = [(0, 100), (10, 20)];
    let services = [0, 10];
    let caps = [5, 10];
    let fleets = [1, 3];
    let depot_xy = [(0, 0), (4, 3)];
    let mut out = vec![];
    let max_customers = ctx.tier.pick(3, 8);
    // a customer template = (coord idx, demand idx, window idx, service idx)
    let templates: Vec<(usize, usize, usize, usize)> = {
        let mut t = vec![];
        product(&[coords.len(), demands.len(), windows.len(), services.len()], |i| t.push((i[0], i[1], i[2], i[3])));
        t
    };
    // to keep the product finite: customer k uses template (base + k * stride) over all (base, stride) pairs
    let strides: Vec<usize> = ctx.tier.pick(vec![1, 7, 13], vec![1, 5, 7, 11, 13, 17, 23]);
    for n in 1..=max_customers {
        for base in 0..templates.len() {
            for stride in &strides {
                for (ci, cap) in caps.iter().enumerate() {
                    for (fi, fleet) in fleets.iter().enumerate() {
                        let dxy = depot_xy[(base + ci + fi) % 2];
                        // every 4th instance uses real-world sized coordinates (tens of thousands)
                        let scale = if (base + stride) % 4 == 0 { 10_000 } else { 1 };
                        let dxy = (dxy.0 * scale, dxy.1 * scale);
                        let depot_id = match format {
                            Format::Tsplib => 1 + (base % (n + 1)), // depot id is not always 1
                            _ => 0,
                        };
                        let mut customers = vec![];
                        let mut next_id = if format == Format::Tsplib { 1 } else { 1 };
                        for k in 0..n {
                            let t = templates[(base + k * stride) % templates.len()];
                            if format == Format::Tsplib && next_id == depot_id {
                                next_id += 1;
                            }
                            customers.push(Customer {
                                id: next_id,
                                xy: (coords[t.0].0 * scale, coords[t.0].1 * scale),
                                demand: demands[t.1],
                                tw: windows[t.2],
                                service: services[t.3],
                                pair: 0,
                            });
                            next_id += 1;
                        }
                        if format == Format::Lilim {
                            // every generated customer becomes a pickup, its delivery sibling gets the mirrored attributes
                            let mut paired = vec![];
                            let total = customers.len();
                            for (k, c) in customers.iter().enumerate() {
                                let pid = c.id;
                                let did = total + 1 + k;
                                // cross references: the delivery of pickup k is listed after all pickups (not adjacent)
                                paired.push(Customer { pair: did, ..c.clone() });
                                let t = templates[(base + k * stride + 3) % templates.len()];
                                paired.push(Customer {
                                    id: did,
                                    xy: (coords[(t.0 + 1) % coords.len()].0 * scale, coords[(t.0 + 1) % coords.len()].1 * scale),
                                    demand: -c.demand,
                                    tw: (c.tw.0 + 5, c.tw.1 + 50),
                                    service: services[t.3],
                                    pair: pid,
                                });
                            }
                            // file order: all pickups first, then deliveries in reverse
                            paired.sort_by_key(|c| if c.demand > 0 { c.id as i64 } else { 1000 - c.id as i64 });
                            customers = paired;
                        }
                        out.push(Instance {
                            vehicles: *fleet,
                            capacity: *cap,
                            depot: Customer { id: depot_id, xy: dxy, demand: 0, tw: (0, 1000), service: 0, pair: 0 },
                            customers,
                        });
                    }
                }
            }
        }
    }
    out
}

pub fn run(ctx: &RunCtx) -> Report {
    let mut report = Report::new("exploration");
    for format in [Format::Solomon, Format::Lilim, Format::Tsplib] {
        let insts = instances(ctx, format);
        let variants = if format == Format::Tsplib { 2 } else { 1 };
        let parts = par_map(ctx.threads, insts.len(), |i| {
            let mut r = Report::new("exploration");
            for variant in 0..variants {
                check_instance(&insts[i], format, variant, &mut r);
            }
            r.add_count("instances", 1);
            if i % 1500 == 7 {
                r.sample(json!({"format": format!("{format:?}"), "instance": insts[i].to_json()}));
            }
            r
        });
        for p in parts {
            report.merge(p);
        }
    }
    let distinct = report.get_count("instances");
    report.set("distinct_nontrivial", distinct);
    report.set("exhaustive", true);
    report.set(
        "rule",
        "instances = all (customer count 1..3/4) x (template base over 60 customer templates: coord x demand x window x service) x stride x capacity x \
         fleet size, printed in the Solomon, Li&Lim (pickup/delivery pairs with non-adjacent cross references) and TSPLIB (depot id != 1, float coordinates) \
         grammars, parsed rounded and unrounded and compared field by field; for Solomon/TSPLIB every complete solution (all set partitions x orders) of \
         <= 4 customers written and read back; distinct = generated instances",
    );
    report.assume("TSPLIB has no fleet size: the reader's convention (one vehicle per node) is taken as expected");
    report
}

pub fn replay(_ctx: &RunCtx, scenario: &Value) -> Result<Vec<Violation>, String> {
    let base = if scenario["part"] == "solution" { &scenario["base"] } else { scenario };
    let inst = Instance::from_json(&base["instance"]).ok_or("bad instance")?;
    let format = match base["format"].as_str().unwrap_or("") {
        "Solomon" => Format::Solomon,
        "Lilim" => Format::Lilim,
        _ => Format::Tsplib,
    };
    let variant = base["variant"].as_u64().unwrap_or(0) as usize;
    let mut report = Report::new("exploration");
    check_instance(&inst, format, variant, &mut report);
    Ok(report.violations)
}
