//! C20 — insertion cost estimates equal true objective changes for additive objectives.
//!
//! For every feasible tour of the C06 space, every outside job and every leg where the evaluator answers `Success(c)`:
//! the insertion is carried out through the public insertion heuristic (with an evaluator which hands out exactly that
//! result) and the fitness change of a single-layer goal is compared with the quote, one objective at a time.

use crate::corelab::*;
use crate::*;
use serde_json::{Value, json};
use std::collections::HashSet;
use std::sync::Mutex;
use vrp_core::construction::heuristics::*;
use vrp_core::models::problem::Job;

struct OneShot {
    result: Mutex<Option<InsertionSuccess>>,
}

impl InsertionEvaluator for OneShot {
    fn evaluate_all(&self, _: &InsertionContext, _: &[&Job], _: &[&RouteContext], _: &LegSelection, _: &(dyn ResultSelector)) -> InsertionResult {
        match self.result.lock().unwrap().take() {
            Some(success) => InsertionResult::Success(success),
            None => InsertionResult::make_failure(),
        }
    }
}

const KINDS: [(GoalKind, &str); 8] = [
    (GoalKind::OnlyUnassigned, "unassigned"),
    (GoalKind::OnlyWeightedUnassigned, "weighted-unassigned"),
    (GoalKind::OnlyTours, "tours"),
    (GoalKind::OnlyDistance, "distance"),
    (GoalKind::OnlyValue, "value"),
    (GoalKind::OnlyCost, "cost"),
    // additive objectives summed up in ONE layer by the feature combinator
    (GoalKind::SumToursDistance, "tours+distance"),
    (GoalKind::SumUnassignedToursDistance, "unassigned+tours+distance"),
];

fn names(lab: &Lab, seq: &[Visit]) -> Vec<String> {
    seq.iter().map(|v| format!("{}#{}w{}", lab.tasks[v.task].id, v.place, v.window)).collect()
}

fn check_tour(lab: &Lab, kind: &str, vehicle: usize, seq: &[Visit], report: &mut Report) {
    let vt = &lab.vehicles[vehicle];
    let departure = vt.start_earliest;
    let before_sim = sim(&lab.tasks, vt, seq, departure);
    let in_tour: HashSet<usize> = seq.iter().map(|v| lab.tasks[v.task].job).collect();
    let selector = BestResultSelector::default();
    let leg_selection = LegSelection::Exhaustive;
    let goal = &lab.problem.goal;
    // "before": the tour as it is, every outside job unassigned
    let before_ctx = lab.context(vehicle, lab.route(vehicle, seq, None), &[]);
    let f0: Vec<f64> = goal.fitness(&before_ctx).collect();
    let legs = before_ctx.solution.routes.first().map_or(1, |r| r.route().tour.legs().count());
    for j in 0..lab.jobs.len() {
        if in_tour.contains(&j) {
            continue;
        }
        let job = &lab.jobs[j];
        let mut quotes: Vec<(usize, f64, f64)> = vec![]; // (leg, quote, realised)
        for p in 0..legs.max(1) {
            let ictx = lab.context(vehicle, lab.route(vehicle, seq, None), &[j]);
            let actor = lab.actor(vehicle);
            let route_ref: &RouteContext = if seq.is_empty() {
                match ictx.solution.registry.next_route().find(|r| std::sync::Arc::ptr_eq(&r.route().actor, &actor)) {
                    Some(r) => r,
                    None => continue,
                }
            } else {
                &ictx.solution.routes[0]
            };
            let eval_ctx = EvaluationContext { goal, job, leg_selection: &leg_selection, result_selector: &selector };
            let scen = json!({"goal": kind, "vehicle": vehicle, "tour": seq.iter().map(|v| json!([v.task, v.place, v.window])).collect::<Vec<_>>(), "job": j, "leg": p});
            report.add_count("evaluations", 1);
            let result = catch(|| eval_job_insertion_in_route(&ictx, &eval_ctx, route_ref, InsertionPosition::Concrete(p), InsertionResult::make_failure()));
            let success = match result {
                Ok(InsertionResult::Success(s)) => s,
                Ok(_) => continue,
                Err(pn) => {
                    report.violation(Violation::new(format!("panic@{}", panic_site(&pn)), pn, scen));
                    continue;
                }
            };
            let quote: Vec<f64> = success.cost.iter().collect();
            let expected_seq = match super::c06::apply_to_sequence(lab, seq, &success) {
                Ok(s) => s,
                Err(_) => continue, // judged by C06
            };
            let after_sim = sim(&lab.tasks, vt, &expected_seq, departure);
            if !after_sim.feasible {
                continue; // judged by C06
            }
            // carry the insertion out through the public heuristic
            let heuristic = InsertionHeuristic::new(Box::new(OneShot { result: Mutex::new(Some(success)) }));
            let after_ctx = match catch(|| heuristic.process(ictx, &AllJobSelector::default(), &AllRouteSelector::default(), &leg_selection, &selector)) {
                Ok(c) => c,
                Err(pn) => {
                    report.violation(Violation::new(format!("apply-panic@{}", panic_site(&pn)), pn, scen));
                    continue;
                }
            };
            report.add_count("insertions_carried_out", 1);
            // the tour must now be the expected one
            let got_seq: Vec<usize> = after_ctx
                .solution
                .routes
                .first()
                .map(|r| r.route().tour.all_activities().filter_map(|a| a.job.as_ref().and_then(|s| lab.task_of(s))).collect())
                .unwrap_or_default();
            if got_seq != expected_seq.iter().map(|v| v.task).collect::<Vec<_>>() {
                report.violation(Violation::new(
                    "applied-tour-differs",
                    format!("expected {:?}, tour is {:?}", names(lab, &expected_seq), got_seq.iter().map(|t| lab.tasks[*t].id).collect::<Vec<_>>()),
                    scen,
                ));
                continue;
            }
            let f1: Vec<f64> = goal.fitness(&after_ctx).collect();
            if quote.len() != f1.len() || f0.len() != f1.len() {
                report.violation(Violation::new("dimension", format!("quote {quote:?}, fitness {f0:?} -> {f1:?}"), scen));
                continue;
            }
            // the cost objective is only additive without waiting (before and after)
            let judged = kind != "cost" || (before_sim.waiting == 0. && after_sim.waiting == 0.);
            if !judged {
                report.add_count("skipped_because_of_waiting", 1);
                continue;
            }
            report.add_count("quotes_judged", 1);
            let delta = f1[0] - f0[0];
            if (delta - quote[0]).abs() > 1e-9 * delta.abs().max(1.) {
                let new_tour = seq.is_empty();
                report.violation(Violation::new(
                    format!("{kind}:quote-differs{}", if new_tour { ":new-tour" } else { "" }),
                    format!(
                        "{}: inserting {} at leg {p} of {:?} on {}: quoted {}, objective changed {} -> {} (= {delta})",
                        kind,
                        lab.tasks.iter().filter(|t| t.job == j).map(|t| t.id).collect::<Vec<_>>().join("+"),
                        names(lab, seq),
                        vt.id,
                        quote[0],
                        f0[0],
                        f1[0]
                    ),
                    scen,
                ));
            }
            quotes.push((p, quote[0], delta));
        }
        // the cheapest quoted is the cheapest realised
        if quotes.len() > 1 {
            let best_q = quotes.iter().cloned().min_by(|a, b| a.1.total_cmp(&b.1)).unwrap();
            let best_r = quotes.iter().cloned().min_by(|a, b| a.2.total_cmp(&b.2)).unwrap();
            if best_q.2 > best_r.2 + 1e-9 {
                report.violation(Violation::new(
                    format!("{kind}:cheapest-quote-not-cheapest"),
                    format!("cheapest quote at leg {} realises {}, but leg {} realises {}", best_q.0, best_q.2, best_r.0, best_r.2),
                    json!({"goal": kind, "vehicle": vehicle, "tour": seq.iter().map(|v| json!([v.task, v.place, v.window])).collect::<Vec<_>>(), "job": j}),
                ));
            }
        }
    }
}

pub fn run(ctx: &RunCtx) -> Report {
    let mut report = Report::new("exploration");
    let max_len = ctx.tier.pick(3, 5);
    let all = sequences(&tasks(), max_len);
    let nveh = vehicles().len();
    let chunk = 500;
    let nchunks = all.len().div_ceil(chunk);
    let chunks: Vec<(usize, usize, usize)> =
        (0..KINDS.len()).flat_map(|k| (0..nveh).flat_map(move |v| (0..nchunks).map(move |c| (k, v, c)))).collect();
    let all_ref = &all;
    let parts = par_map(ctx.threads, chunks.len(), |ci| {
        let (k, vehicle, c) = chunks[ci];
        let (kind, name) = KINDS[k];
        let lab = Lab::new(kind);
        let vt = lab.vehicles[vehicle].clone();
        let mut r = Report::new("exploration");
        for seq in all_ref.iter().skip(c * chunk).take(chunk) {
            if !sim(&lab.tasks, &vt, seq, vt.start_earliest).feasible {
                continue;
            }
            r.add_count("tours_feasible", 1);
            check_tour(&lab, name, vehicle, seq, &mut r);
            if r.get_count("tours_feasible") % 211 == 1 {
                r.sample(json!({"goal": name, "vehicle": vt.id, "tour": names(&lab, seq)}));
            }
        }
        r
    });
    for p in parts {
        report.merge(p);
    }
    let judged = report.get_count("quotes_judged");
    report.set("distinct_nontrivial", judged);
    report.set("exhaustive", true);
    if judged == 0 {
        report.error("vacuous: no quote was judged");
    }
    report.set(
        "rule",
        "the C06 tour space (<= 3/4 visits, 6 vehicles, earliest departure) x every outside job x every leg with a successful evaluation x 5 single-layer goals \
         (unassigned, tours, distance, value, cost); each success is applied through InsertionHeuristic::process with a one-shot evaluator and the fitness \
         change is compared with the quote (exact: integer world); cost only without waiting before and after; distinct = judged (goal, tour, job, leg) quotes",
    );
    report.assume("problems without breaks/reloads; 'before' counts the job as unassigned (what the solution would be without the insertion)");
    report
}

pub fn replay(_ctx: &RunCtx, scenario: &Value) -> Result<Vec<Violation>, String> {
    let kind_name = scenario["goal"].as_str().ok_or("goal")?;
    let (kind, name) = KINDS.iter().find(|(_, n)| *n == kind_name).ok_or("unknown goal")?;
    let lab = Lab::new(*kind);
    let vehicle = scenario["vehicle"].as_u64().ok_or("vehicle")? as usize;
    let seq: Vec<Visit> = scenario["tour"]
        .as_array()
        .ok_or("tour")?
        .iter()
        .filter_map(|x| {
            let x = x.as_array()?;
            Some(Visit { task: x[0].as_u64()? as usize, place: x[1].as_u64()? as usize, window: x[2].as_u64()? as usize })
        })
        .collect();
    let mut r = Report::new("exploration");
    check_tour(&lab, name, vehicle, &seq, &mut r);
    let job = scenario["job"].as_u64();
    Ok(r.violations.into_iter().filter(|v| job.is_none() || v.scenario["job"].as_u64() == job).collect())
}
