//! C04 / C05 — every search step maps a consistent solution to a consistent one; cached state equals recomputation.
//!
//! Explicit-state BFS over operator histories on the real `InsertionContext`: roots are initial constructions of small
//! pragmatic problems, transitions are the shipped search operators (every ruin x a recreate, every recreate x a ruin,
//! every local operator, LKH, decomposition, redistribution, infeasible search) executed under several random-answer
//! policies; states are deduplicated on a canonical digest of the observable solution; the invariant is evaluated in every
//! new state (C04) and the cached state is compared with a recomputation from the bare tours (C05).

use super::Extra;
use crate::env::*;
use crate::prag::families::*;
use crate::prag::model::*;
use crate::prag::oracle::{self, OracleOptions};
use crate::prag::solve::*;
use crate::*;
use rosomaxa::evolution::TelemetryMode;
use rosomaxa::hyper::HeuristicSearchOperator;
use rosomaxa::population::Greedy;
use rosomaxa::prelude::*;
use rosomaxa::utils::Parallelism;
use serde_json::{Value, json};
use std::collections::{BTreeSet, HashMap, HashSet, VecDeque};
use std::sync::Arc;
use vrp_core::construction::heuristics::*;
use vrp_core::models::problem::{Job, JobIdDimension, VehicleIdDimension};
use vrp_core::models::{GoalContext, Problem as CoreProblem, Solution as CoreSolution};
use vrp_core::solver::search::*;
use vrp_core::solver::*;

pub(crate) type Op = Arc<dyn HeuristicSearchOperator<Context = RefinementContext, Objective = GoalContext, Solution = InsertionContext> + Send + Sync>;

/// Named operator alphabet, constructed through the public constructors.
pub(crate) fn operators(core: &Arc<CoreProblem>, env: &Arc<Environment>) -> Vec<(String, Op)> {
    let random = env.random.clone();
    let limits = RemovalLimits::new(core.as_ref());
    let small = RemovalLimits { removed_activities_range: 1..3, affected_routes_range: 1..2 };
    let cheapest: Arc<dyn Recreate> = Arc::new(RecreateWithCheapest::new(random.clone()));
    let string: Arc<dyn Ruin> = Arc::new(AdjustedStringRemoval::new_with_defaults(limits.clone()));
    let mut ops: Vec<(String, Op)> = vec![];
    let ruins: Vec<(&str, Arc<dyn Ruin>)> = vec![
        ("string", string.clone()),
        ("string-small", Arc::new(AdjustedStringRemoval::new_with_defaults(small.clone()))),
        ("neighbour", Arc::new(NeighbourRemoval::new(limits.clone()))),
        ("random-job", Arc::new(RandomJobRemoval::new(small.clone()))),
        ("random-route", Arc::new(RandomRouteRemoval::new(limits.clone()))),
        ("close-route", Arc::new(CloseRouteRemoval::new(limits.clone()))),
        ("worst-route", Arc::new(WorstRouteRemoval::new(limits.clone()))),
        ("worst-job", Arc::new(WorstJobRemoval::new(4, limits.clone()))),
    ];
    for (name, ruin) in ruins {
        ops.push((format!("ruin:{name}+cheapest"), Arc::new(RuinAndRecreate::new(ruin, cheapest.clone()))));
    }
    if let Ok(cluster) = ClusterRemoval::new_with_defaults(core.clone()) {
        ops.push(("ruin:cluster+cheapest".into(), Arc::new(RuinAndRecreate::new(Arc::new(cluster), cheapest.clone()))));
    }
    let recreates: Vec<(&str, Arc<dyn Recreate>)> = vec![
        ("skip-best", Arc::new(RecreateWithSkipBest::new(1, 2, random.clone()))),
        ("regret", Arc::new(RecreateWithRegret::new(2, 3, random.clone()))),
        ("perturbation", Arc::new(RecreateWithPerturbation::new_with_defaults(random.clone()))),
        ("gaps", Arc::new(RecreateWithGaps::new(1, 3, random.clone()))),
        ("blinks", Arc::new(RecreateWithBlinks::new_with_defaults(random.clone()))),
        ("farthest", Arc::new(RecreateWithFarthest::new(random.clone()))),
        ("nearest", Arc::new(RecreateWithNearestNeighbor::new(random.clone()))),
        ("slice", Arc::new(RecreateWithSlice::new(random.clone()))),
        ("skip-random", Arc::new(RecreateWithSkipRandom::new(random.clone()))),
    ];
    for (name, recreate) in &recreates {
        ops.push((format!("ruin:string+{name}"), Arc::new(RuinAndRecreate::new(string.clone(), recreate.clone()))));
    }
    let locals: Vec<(&str, Arc<dyn LocalOperator>)> = vec![
        ("inter-route-best", Arc::new(ExchangeInterRouteBest::default())),
        ("inter-route-random", Arc::new(ExchangeInterRouteRandom::default())),
        ("intra-route-random", Arc::new(ExchangeIntraRouteRandom::default())),
        ("sequence", Arc::new(ExchangeSequence::default())),
        ("swap-star", Arc::new(ExchangeSwapStar::new(random.clone(), 200))),
        ("reschedule-departure", Arc::new(RescheduleDeparture::default())),
    ];
    for (name, local) in locals {
        ops.push((format!("local:{name}"), Arc::new(LocalSearch::new(local))));
    }
    ops.push(("lkh:improvement".into(), Arc::new(LKHSearch::new(LKHSearchMode::ImprovementOnly))));
    ops.push(("lkh:diverse".into(), Arc::new(LKHSearch::new(LKHSearchMode::Diverse))));
    let default_op = create_default_heuristic_operator(core.clone(), env.clone());
    ops.push(("decompose".into(), Arc::new(DecomposeSearch::new(default_op.clone(), (2, 4), 2, 200))));
    ops.push(("redistribute".into(), Arc::new(RedistributeSearch::new(cheapest.clone()))));
    ops.push(("infeasible".into(), Arc::new(InfeasibleSearch::new(default_op.clone(), cheapest.clone(), 2, (0.05, 0.2), (0.33, 0.75)))));
    ops.push(("default-operator".into(), default_op));
    ops
}

pub struct World {
    pub family: String,
    pub problem: PProblem,
    pub core: Arc<CoreProblem>,
    pub random: Arc<ScriptedRandom>,
    pub env: Arc<Environment>,
}

impl World {
    pub fn new(family: &str, problem: &PProblem) -> Result<World, String> {
        let core = read_problem(problem)?;
        // a lock whose condition matches SEVERAL vehicles cannot be written as a pragmatic relation (which names one vehicle):
        // built through the core API on top of the problem as read
        let core = if family == "widelock" { with_wide_lock(core, &problem.name)? } else { core };
        let random = Arc::new(ScriptedRandom::new(vec![], Fallback::Default));
        let env = Arc::new(Environment::new(random.clone(), None, Parallelism::new_with_cpus(2), Arc::new(|_| {}), false));
        Ok(World { family: family.to_string(), problem: problem.clone(), core, random, env })
    }

    pub(crate) fn refinement_ctx(&self, known: &InsertionContext) -> RefinementContext {
        let population: TargetPopulation = Box::new(Greedy::new(self.core.goal.clone(), 1, None));
        let mut ctx = RefinementContext::new(self.core.clone(), population, TelemetryMode::None, self.env.clone());
        ctx.add_solution(known.deep_copy());
        ctx
    }

    pub(crate) fn start(&self, policy: u64) {
        self.random.reset(vec![], if policy == 0 { Fallback::Default } else { Fallback::Stream(policy) });
        reseed(policy);
    }

    /// Initial constructions.
    pub fn roots(&self) -> Vec<(String, InsertionContext)> {
        let mut out = vec![];
        let recreates: Vec<(&str, Arc<dyn Recreate>)> = vec![
            ("cheapest", Arc::new(RecreateWithCheapest::new(self.random.clone()))),
            ("farthest", Arc::new(RecreateWithFarthest::new(self.random.clone()))),
            ("regret", Arc::new(RecreateWithRegret::new(2, 3, self.random.clone()))),
            ("gaps", Arc::new(RecreateWithGaps::new(1, 2, self.random.clone()))),
        ];
        for (name, r) in recreates {
            for policy in [0u64, 1] {
                self.start(policy);
                let empty = InsertionContext::new(self.core.clone(), self.env.clone());
                let rctx = self.refinement_ctx(&empty);
                install_policy(PlanPolicy::Sequential);
                let built = catch(|| r.run(&rctx, empty));
                uninstall_plan();
                if let Ok(ctx) = built {
                    if std::env::var("VERIF_DBG").is_ok() {
                        eprintln!(
                            "ROOT {} {name}/{policy}: routes={} required={} ignored={} unassigned={} locked={}",
                            self.problem.name,
                            ctx.solution.routes.len(),
                            ctx.solution.required.len(),
                            ctx.solution.ignored.len(),
                            ctx.solution.unassigned.len(),
                            ctx.solution.locked.len()
                        );
                    }
                    out.push((format!("{name}/{policy}"), ctx));
                }
            }
        }
        // the long tour: a root in which the multi-part jobs are taken out again, so that EVERY operator has to place them
        // into a tour long enough for the evaluator's sampled leg selection
        if self.family == "long50" {
            if let Some((_, base)) = out.first() {
                let mut ctx = base.deep_copy();
                let multis: Vec<Job> = ctx.solution.routes.iter().flat_map(|rc| rc.route().tour.jobs().filter(|j| j.as_multi().is_some()).cloned().collect::<Vec<_>>()).collect();
                for rc in ctx.solution.routes.iter_mut() {
                    for job in &multis {
                        rc.route_mut().tour.remove(job);
                    }
                }
                ctx.solution.required.extend(multis);
                ctx.restore();
                out.insert(0, ("cheapest/0/multi-pending".to_string(), ctx));
            }
        }
        out
    }
}

/// Re-creates the problem with one lock on the jobs j0, j1 whose condition accepts the vehicles v_1 and v_2, and with the
/// library's locked-jobs constraint for it (order taken from the problem name: any / sequence / strict).
fn with_wide_lock(core: Arc<CoreProblem>, name: &str) -> Result<Arc<CoreProblem>, String> {
    use vrp_core::construction::features::create_locked_jobs_feature;
    use vrp_core::models::{Lock, LockDetail, LockOrder, LockPosition};
    let order = if name.contains("strict") {
        LockOrder::Strict
    } else if name.contains("sequence") {
        LockOrder::Sequence
    } else {
        LockOrder::Any
    };
    let jobs: Vec<Job> = ["j0", "j1"].iter().filter_map(|id| core.jobs.all().iter().find(|j| job_id(j) == *id).cloned()).collect();
    if jobs.len() != 2 {
        return Err("wide lock: jobs j0, j1 not found".into());
    }
    let condition: Arc<dyn Fn(&vrp_core::models::problem::Actor) -> bool + Send + Sync> =
        Arc::new(|actor| actor.vehicle.dimens.get_vehicle_id().is_some_and(|id| id == "v_1" || id == "v_2"));
    let lock = Arc::new(Lock::new(condition, vec![LockDetail::new(order, LockPosition::Any, jobs)], false));
    let feature = create_locked_jobs_feature("wide_lock", core.fleet.as_ref(), &[lock.clone()], vrp_core::models::ViolationCode(99)).map_err(|e| e.to_string())?;
    let constraint = feature.constraint.ok_or("locked jobs feature has no constraint")?;
    let goal = core.goal.with_constraints(core.goal.constraints().chain(std::iter::once(constraint)));
    Ok(Arc::new(CoreProblem {
        fleet: core.fleet.clone(),
        jobs: core.jobs.clone(),
        locks: vec![lock],
        goal: Arc::new(goal),
        activity: core.activity.clone(),
        transport: core.transport.clone(),
        extras: core.extras.clone(),
    }))
}

fn job_id(job: &Job) -> String {
    job.dimens().get_job_id().cloned().unwrap_or_else(|| "?".into())
}

/// Canonical digest of the observable solution.
pub fn canonical(ctx: &InsertionContext) -> String {
    let mut routes: Vec<String> = ctx
        .solution
        .routes
        .iter()
        .map(|rc| {
            let r = rc.route();
            let acts: Vec<String> = r
                .tour
                .all_activities()
                .filter_map(|a| a.job.as_ref().map(|s| format!("{}@{}", s.dimens.get_job_id().cloned().or_else(|| a.retrieve_job().map(|j| job_id(&j))).unwrap_or_default(), a.place.idx)))
                .collect();
            format!(
                "{}#{}:{}:{:?}",
                r.actor.vehicle.dimens.get_vehicle_id().cloned().unwrap_or_default(),
                r.actor.detail.time.start,
                r.tour.start().map_or(0., |s| s.schedule.departure),
                acts
            )
        })
        .collect();
    routes.sort();
    let set = |jobs: Vec<String>| {
        let mut v = jobs;
        v.sort();
        v
    };
    format!(
        "{routes:?}|U{:?}|R{:?}|I{:?}|L{:?}",
        set(ctx.solution.unassigned.keys().map(job_id).collect()),
        set(ctx.solution.required.iter().map(job_id).collect()),
        set(ctx.solution.ignored.iter().map(job_id).collect()),
        set(ctx.solution.locked.iter().map(job_id).collect()),
    )
}

/// Full digest: canonical tours + cached state digests + stale flags (for the "parent unchanged" rule).
fn full_digest(ctx: &InsertionContext) -> String {
    let mut routes: Vec<String> = ctx
        .solution
        .routes
        .iter()
        .map(|rc| {
            let (state, _) = rc.state().verif_digest();
            let sched: Vec<String> = rc.route().tour.all_activities().map(|a| format!("{}-{}", a.schedule.arrival, a.schedule.departure)).collect();
            format!("{}|{:?}|{:?}|{}", rc.route().actor.vehicle.dimens.get_vehicle_id().cloned().unwrap_or_default(), sched, state, rc.is_stale())
        })
        .collect();
    routes.sort();
    let (sol_state, _) = ctx.solution.state.verif_digest(true);
    format!("{}||{routes:?}||{sol_state:?}", canonical(ctx))
}

/// C04 invariants I1-I4 on the context itself.
pub(crate) fn structural(world: &World, ctx: &InsertionContext) -> Vec<(String, String)> {
    let mut errs = vec![];
    let all: Vec<Job> = world.core.jobs.all().iter().cloned().collect();
    let mut places: HashMap<String, Vec<String>> = HashMap::new();
    for (ri, rc) in ctx.solution.routes.iter().enumerate() {
        for job in rc.route().tour.jobs() {
            places.entry(job_id(job)).or_default().push(format!("route{ri}"));
        }
    }
    for job in ctx.solution.unassigned.keys() {
        places.entry(job_id(job)).or_default().push("unassigned".into());
    }
    for job in &ctx.solution.required {
        places.entry(job_id(job)).or_default().push("required".into());
    }
    for job in &ctx.solution.ignored {
        places.entry(job_id(job)).or_default().push("ignored".into());
    }
    // conditional jobs (breaks, reloads) are markers which the library may legitimately drop or keep pending:
    // the partition rule is about the customer jobs of the plan
    let plan: HashSet<&str> = world.problem.jobs.iter().map(|j| j.id.as_str()).collect();
    for job in &all {
        let id = job_id(job);
        if !plan.contains(id.as_str()) {
            continue;
        }
        match places.get(&id).map(|p| p.len()).unwrap_or(0) {
            1 => {}
            0 => errs.push(("I1:job-lost".to_string(), format!("job '{id}' lives nowhere"))),
            _ => errs.push(("I1:job-duplicated".to_string(), format!("job '{id}' lives in {:?}", places[&id]))),
        }
    }
    // conditional jobs (breaks, reloads) share ids, they are told apart by identity: each lives in exactly one place too
    let ptr = |job: &Job| -> usize {
        match job {
            Job::Single(s) => Arc::as_ptr(s) as *const () as usize,
            Job::Multi(m) => Arc::as_ptr(m) as *const () as usize,
        }
    };
    let mut by_ptr: HashMap<usize, Vec<String>> = HashMap::new();
    for (ri, rc) in ctx.solution.routes.iter().enumerate() {
        for job in rc.route().tour.jobs() {
            by_ptr.entry(ptr(job)).or_default().push(format!("route{ri}"));
        }
    }
    for job in ctx.solution.unassigned.keys() {
        by_ptr.entry(ptr(job)).or_default().push("unassigned".into());
    }
    for job in &ctx.solution.required {
        by_ptr.entry(ptr(job)).or_default().push("required".into());
    }
    for job in &ctx.solution.ignored {
        by_ptr.entry(ptr(job)).or_default().push("ignored".into());
    }
    for job in &all {
        let id = job_id(job);
        if plan.contains(id.as_str()) {
            continue;
        }
        let vehicle = job.dimens().get_vehicle_id().cloned().unwrap_or_default();
        match by_ptr.get(&ptr(job)).map(|p| p.len()).unwrap_or(0) {
            1 => {}
            0 => errs.push(("I1:conditional-job-lost".to_string(), format!("conditional job '{id}' of vehicle '{vehicle}' lives nowhere"))),
            _ => errs.push(("I1:conditional-job-duplicated".to_string(), format!("conditional job '{id}' of vehicle '{vehicle}' lives in {:?}", by_ptr[&ptr(job)]))),
        }
    }
    if places.len() > all.len() {
        errs.push(("I1:unknown-job".to_string(), "context holds a job which is not part of the problem".into()));
    }
    // I2: actors distinct, registry in sync
    let mut actors: Vec<*const vrp_core::models::problem::Actor> = ctx.solution.routes.iter().map(|rc| Arc::as_ptr(&rc.route().actor)).collect();
    let n = actors.len();
    actors.sort();
    actors.dedup();
    if actors.len() != n {
        errs.push(("I2:actor-twice".to_string(), "two routes are driven by the same actor".into()));
    }
    let available: HashSet<*const vrp_core::models::problem::Actor> = ctx.solution.registry.resources().available().map(|a| Arc::as_ptr(&a)).collect();
    let total = ctx.solution.registry.resources().all().count();
    for rc in &ctx.solution.routes {
        if available.contains(&Arc::as_ptr(&rc.route().actor)) {
            errs.push(("I2:registry-offers-used-actor".to_string(), format!("{:?}", rc.route().actor.vehicle.dimens.get_vehicle_id())));
        }
    }
    if available.len() + n != total {
        errs.push(("I2:registry-drift".to_string(), format!("{} available + {n} used != {total} actors", available.len())));
    }
    // I3: multi jobs whole and in a permitted order
    for rc in &ctx.solution.routes {
        for job in rc.route().tour.jobs() {
            if let Job::Multi(multi) = job {
                let positions: Vec<Option<usize>> =
                    multi.jobs.iter().map(|s| rc.route().tour.all_activities().position(|a| a.job.as_ref().is_some_and(|x| Arc::ptr_eq(x, s)))).collect();
                if positions.iter().any(|p| p.is_none()) {
                    errs.push(("I3:multi-job-partial".to_string(), format!("job '{}' has only some of its parts in the tour", job_id(job))));
                } else {
                    let order: Vec<usize> = {
                        let mut idx: Vec<usize> = (0..positions.len()).collect();
                        idx.sort_by_key(|i| positions[*i].unwrap());
                        idx
                    };
                    if !multi.validate(&order) {
                        errs.push(("I3:multi-job-order".to_string(), format!("job '{}' parts visited in order {order:?}", job_id(job))));
                    }
                }
            }
        }
    }
    // I4: locked jobs stay on a vehicle which satisfies the lock condition
    for lock in world.core.locks.iter() {
        for detail in &lock.details {
            for job in &detail.jobs {
                for rc in &ctx.solution.routes {
                    if rc.route().tour.contains(job) && !(lock.condition_fn)(rc.route().actor.as_ref()) {
                        errs.push(("I4:locked-job-on-wrong-vehicle".to_string(), format!("job '{}'", job_id(job))));
                    }
                }
            }
            // a pinned sequence stays whole: its assigned jobs are on ONE tour, in the given order (strict: next to each other)
            if !matches!(detail.order, vrp_core::models::LockOrder::Any) {
                let positions: Vec<Option<(usize, usize)>> = detail
                    .jobs
                    .iter()
                    .map(|job| {
                        ctx.solution.routes.iter().enumerate().find_map(|(ri, rc)| {
                            rc.route().tour.all_activities().position(|a| a.retrieve_job().is_some_and(|j| &j == job)).map(|pos| (ri, pos))
                        })
                    })
                    .collect();
                let assigned: Vec<(usize, usize)> = positions.iter().flatten().copied().collect();
                if !assigned.is_empty() {
                    let ids: Vec<String> = detail.jobs.iter().map(job_id).collect();
                    if assigned.len() != detail.jobs.len() {
                        errs.push(("I4:pinned-sequence-partly-assigned".to_string(), format!("jobs {ids:?} at {positions:?}")));
                    } else if assigned.iter().any(|(ri, _)| *ri != assigned[0].0) {
                        errs.push(("I4:pinned-sequence-split-over-tours".to_string(), format!("jobs {ids:?} at (tour, position) {assigned:?}")));
                    } else if assigned.windows(2).any(|w| w[0].1 >= w[1].1) {
                        errs.push(("I4:pinned-sequence-out-of-order".to_string(), format!("jobs {ids:?} at (tour, position) {assigned:?}")));
                    } else if matches!(detail.order, vrp_core::models::LockOrder::Strict) && assigned.windows(2).any(|w| w[0].1 + 1 != w[1].1) {
                        errs.push(("I4:pinned-strict-sequence-interleaved".to_string(), format!("jobs {ids:?} at (tour, position) {assigned:?}")));
                    }
                }
            }
        }
    }
    errs
}

/// I5: what is assigned is feasible (independent oracle on the written solution).
pub(crate) fn feasibility(world: &World, ctx: &InsertionContext) -> Vec<(String, String)> {
    let copy = ctx.deep_copy();
    let solution: CoreSolution = (copy, None).into();
    match catch(|| write_solution(world.core.as_ref(), &solution)) {
        Ok(Ok(json)) => {
            let findings = oracle::check(&world.problem, &json, &OracleOptions { tol: oracle::tolerance(&world.family, &world.problem) });
            if std::env::var("VERIF_DUMP").is_ok() && !findings.is_empty() {
                eprintln!("PROBLEM {}\nMATRICES {}\nSOLUTION {}", world.problem.problem_json(), serde_json::json!(world.problem.matrices_json()), json);
                for f in &findings {
                    eprintln!("FINDING {} :: {}", f.rule, f.what);
                }
            }
            findings
            .into_iter()
            .filter(|f| f.rule.starts_with("C01:") || f.rule == "C02:job-split" || f.rule == "C02:pickup-after-delivery" || f.rule == "C02:vehicle-shift-twice")
            // the schedule around a required break taken on the road is not replayed: the break's own rules and the load only
            .filter(|f| world.family != "reqbreak" || f.rule.starts_with("C01:required-break-window") || f.rule.starts_with("C01:required-break-duration") || f.rule == "C01:capacity" || f.rule.starts_with("C02:"))
            // a tour over an unreachable leg is named by problem and leg (as in C01), whatever operator left it behind
            .map(|f| (format!("I5:{}", if f.rule == "C01:unreachable-leg" { super::c01::finding_key(&f, &world.family, &world.problem) } else { f.rule.clone() }), f.what))
            .collect()
        }
        Ok(Err(e)) => vec![("I5:cannot-write".into(), e)],
        Err(p) => {
            if std::env::var("VERIF_DUMP").is_ok() {
                for r in ctx.solution.routes.iter() {
                    eprintln!(
                        "ROUTE {}: {:?}",
                        r.route().actor.vehicle.dimens.get_vehicle_id().cloned().unwrap_or_default(),
                        r.route().tour.all_activities().map(|a| (a.place.location, a.schedule.arrival, a.schedule.departure)).collect::<Vec<_>>()
                    );
                }
            }
            vec![(format!("I5:write-panic@{}", panic_site(&p)), p)]
        }
    }
}

/// C05: caches == recomputation from the bare tours.
fn cache_consistency(world: &World, ctx: &InsertionContext, report: &mut Report) -> Vec<(String, String)> {
    let mut errs = vec![];
    let mut copy = ctx.deep_copy();
    let before_tours = canonical(&copy);
    let before: Vec<(String, Vec<String>)> = copy
        .solution
        .routes
        .iter()
        .map(|rc| (format!("{}#{:x}", rc.route().actor.vehicle.dimens.get_vehicle_id().cloned().unwrap_or_default(), Arc::as_ptr(&rc.route().actor) as usize), {
            let (d, opaque) = rc.state().verif_digest();
            report.add_count("opaque_state_entries", opaque as u64);
            let mut d = d;
            d.extend(rc.route().tour.all_activities().map(|a| format!("sched:{}-{}", a.schedule.arrival, a.schedule.departure)));
            d
        }))
        .collect();
    let (sol_before, _) = copy.solution.state.verif_digest(false);
    let fitness_before: Vec<f64> = world.core.goal.fitness(&copy).collect();
    // strip + full recomputation as the library itself defines it
    for rc in copy.solution.routes.iter_mut() {
        rc.verif_reset_state();
    }
    copy.solution.state.verif_strip_features();
    // the library's own full rebuild; features read each other's state (e.g. load balance reads the capacity state), so
    // the rebuild is repeated until it is stable (at most 3 passes); a difference after one pass only is counted
    let digest_all = |c: &InsertionContext| -> String {
        c.solution.routes.iter().map(|rc| format!("{:?}", rc.state().verif_digest().0)).collect::<Vec<_>>().join("|") + &format!("{:?}", c.solution.state.verif_digest(false).0)
    };
    let mut passes = 0;
    let mut last = String::new();
    loop {
        let r = catch(|| {
            for rc in copy.solution.routes.iter_mut() {
                world.core.goal.accept_route_state(rc);
            }
            world.core.goal.accept_solution_state(&mut copy.solution);
        });
        if let Err(p) = r {
            return vec![(format!("recompute-panic@{}", panic_site(&p)), p)];
        }
        passes += 1;
        let now = digest_all(&copy);
        if now == last || passes >= 3 {
            break;
        }
        last = now;
    }
    if passes > 2 {
        report.add_count("rebuilds_needing_more_than_one_pass", 1);
    }
    if std::env::var("VERIF_DBG").is_ok() {
        eprintln!("DBG tours {before_tours}");
        for (vid, state) in &before {
            eprintln!("DBG cached {vid}: {state:?}");
        }
        for rc in copy.solution.routes.iter() {
            eprintln!("DBG recomputed {:?}: {:?}", rc.route().actor.vehicle.dimens.get_vehicle_id(), rc.state().verif_digest().0);
        }
        eprintln!("DBG solution cached {sol_before:?}\nDBG solution recomputed {:?}", copy.solution.state.verif_digest(false).0);
    }
    let after_tours = canonical(&copy);
    if before_tours != after_tours {
        errs.push(("recompute-changes-tours".to_string(), format!("{before_tours}  =>  {after_tours}")));
        return errs;
    }
    for (vid, state) in &before {
        // a vehicle with two shifts drives two tours under one id: routes are told apart by their actor
        let Some(rc) = copy.solution.routes.iter().find(|rc| vid.ends_with(&format!("#{:x}", Arc::as_ptr(&rc.route().actor) as usize))) else { continue };
        let (mut d, _) = rc.state().verif_digest();
        d.extend(rc.route().tour.all_activities().map(|a| format!("sched:{}-{}", a.schedule.arrival, a.schedule.departure)));
        if &d != state {
            let diff: Vec<String> = state.iter().zip(d.iter()).filter(|(a, b)| a != b).map(|(a, b)| format!("cached {a} vs recomputed {b}")).take(3).collect();
            let len = if state.len() != d.len() { format!(" (entries {} vs {})", state.len(), d.len()) } else { String::new() };
            errs.push(("route-cache-differs".to_string(), format!("route '{vid}'{len}: {diff:?}")));
        }
    }
    let (sol_after, _) = copy.solution.state.verif_digest(false);
    if sol_before != sol_after {
        let diff: Vec<String> = sol_before.iter().zip(sol_after.iter()).filter(|(a, b)| a != b).map(|(a, b)| format!("cached {a} vs recomputed {b}")).take(3).collect();
        errs.push(("solution-cache-differs".to_string(), format!("{diff:?} (entries {} vs {})", sol_before.len(), sol_after.len())));
    }
    let fitness_after: Vec<f64> = world.core.goal.fitness(&copy).collect();
    if fitness_before.len() != fitness_after.len() || fitness_before.iter().zip(fitness_after.iter()).any(|(a, b)| (a - b).abs() > 1e-9 * a.abs().max(1.)) {
        errs.push(("fitness-not-a-function-of-tours".to_string(), format!("{fitness_before:?} vs recomputed {fitness_after:?}")));
    }
    errs
}

/// C05, "after every single insertion": route-level caches of every route == recomputation of a stripped copy of that route.
/// (Solution-level aggregates are rebuilt by the library when a heuristic finishes; they are judged at every handover.)
fn route_caches_after_insertion(goal: &GoalContext, ctx: &InsertionContext) -> Vec<(String, String)> {
    let mut errs = vec![];
    // a PARTIAL solution (the contexts the decomposition works on hold a part of the tours and jobs): what is left of a shared
    // reload resource depends on the whole solution and is by design not maintained there (the library refuses every
    // insertion with resource demand in a partial solution instead); these per-activity Option entries are left out
    let jobs_here = ctx.solution.routes.iter().map(|rc| rc.route().tour.job_count()).sum::<usize>() + ctx.solution.required.len() + ctx.solution.ignored.len() + ctx.solution.unassigned.len();
    let partial = jobs_here != ctx.problem.jobs.size();
    let digest = |rc: &RouteContext| -> Vec<String> {
        let (mut d, _) = rc.state().verif_digest();
        // an absent entry and an empty collection say the same thing (e.g. group tags of a tour without grouped jobs)
        d.retain(|e| !e.ends_with("=[]"));
        if partial {
            d.retain(|e| !(e.contains("=[None") || e.contains("=[Some(")));
        }
        d.extend(rc.route().tour.all_activities().map(|a| format!("sched:{}-{}", a.schedule.arrival, a.schedule.departure)));
        d
    };
    let key_of = |rc: &RouteContext| Arc::as_ptr(&rc.route().actor) as usize;
    let cached: HashMap<usize, Vec<String>> = ctx.solution.routes.iter().map(|rc| (key_of(rc), digest(rc))).collect();
    // some per-tour entries (group tags, ...) are maintained by the solution-level pass: the whole context is rebuilt; if the
    // rebuild itself edits tours (a trivial reload marker is taken out, ...) the two sides are not comparable and nothing is judged
    let mut copy = ctx.deep_copy();
    let tours_before = canonical(&copy);
    for rc in copy.solution.routes.iter_mut() {
        rc.verif_reset_state();
    }
    copy.solution.state.verif_strip_features();
    let mut last = String::new();
    for _ in 0..3 {
        let r = catch(|| {
            for rc in copy.solution.routes.iter_mut() {
                goal.accept_route_state(rc);
            }
            goal.accept_solution_state(&mut copy.solution);
        });
        if let Err(p) = r {
            return vec![(format!("insertion:recompute-panic@{}", panic_site(&p)), p)];
        }
        let now: String = copy.solution.routes.iter().map(|rc| format!("{:?}", digest(rc))).collect();
        if now == last {
            break;
        }
        last = now;
    }
    if canonical(&copy) != tours_before {
        return vec![("-not-comparable".into(), String::new())];
    }
    // infeasible-space search relaxes constraints on purpose: a tour which holds jobs of two compatibility classes has no
    // defined compatibility value
    {
        use vrp_core::construction::features::JobCompatibilityDimension;
        let mixed = ctx.solution.routes.iter().any(|rc| {
            let tags: HashSet<&String> = rc.route().tour.jobs().filter_map(|j| j.dimens().get_job_compatibility()).collect();
            tags.len() > 1
        });
        if mixed {
            return vec![("-not-comparable".into(), String::new())];
        }
    }
    for rc in copy.solution.routes.iter() {
        let Some(c) = cached.get(&key_of(rc)) else { continue };
        let r = digest(rc);
        if &r != c {
            let diff: Vec<String> = c.iter().zip(r.iter()).filter(|(a, b)| a != b).map(|(a, b)| format!("cached {a} vs recomputed {b}")).take(3).collect();
            let vid = rc.route().actor.vehicle.dimens.get_vehicle_id().cloned().unwrap_or_default();
            errs.push(("insertion:route-cache-differs".to_string(), format!("route '{vid}' (entries {} vs {}): {diff:?}", c.len(), r.len())));
        }
    }
    errs
}

type InsertionSink = std::rc::Rc<std::cell::RefCell<(u64, Vec<(String, String)>, u64)>>;

fn observe_insertions(goal: Arc<GoalContext>) -> InsertionSink {
    let sink: InsertionSink = Default::default();
    let s = sink.clone();
    verif_observer::install(Box::new(move |ctx: &InsertionContext| {
        // infeasible-space search builds its contexts under a goal of its own (constraints relaxed on purpose): what its
        // caches should hold is not defined by the problem's goal, such insertions are counted, not judged
        let errs = if Arc::ptr_eq(&ctx.problem.goal, &goal) { route_caches_after_insertion(goal.as_ref(), ctx) } else { vec![("-not-comparable".into(), String::new())] };
        let mut b = s.borrow_mut();
        b.0 += 1;
        if errs.iter().any(|(k, _)| k == "-not-comparable") {
            b.2 += 1;
        } else if b.1.len() < 8 {
            b.1.extend(errs);
        }
    }));
    sink
}

fn is_c05(ctx: &RunCtx) -> bool {
    ctx.id == "C05"
}

fn slice(tier: Tier) -> Vec<(String, PProblem)> {
    // a slice of the families: problems with >= 3 jobs, every family represented
    let mut out = vec![];
    for (name, problems) in all_families(Tier::Quick) {
        let per = match (name, tier) {
            ("core", Tier::Quick) => 10,
            ("core", _) => 60,
            (_, Tier::Quick) => 3,
            _ => 12,
        };
        let candidates: Vec<PProblem> = problems.into_iter().filter(|p| p.jobs.len() >= 3).collect();
        let step = (candidates.len() / per.max(1)).max(1);
        let mut picked: Vec<PProblem> = candidates.iter().step_by(step).take(per).cloned().collect();
        // shapes with per-tour caches of their own are always part of the slice: groups / compatibility / order / value,
        // tour-shape objectives (balance, compact tour, fast service), reloads / shared resources / breaks / two shifts
        for p in &candidates {
            let special = p.name.starts_with("attr/v") || name == "shape" || name == "cond";
            if special && !picked.iter().any(|q| q.name == p.name) {
                picked.push(p.clone());
            }
        }
        out.extend(picked.into_iter().map(|p| (name.to_string(), p)));
    }
    // recharge stations and required breaks (families outside of `all_families`)
    let (rc, rb) = (family_recharge(), family_reqbreak());
    let pick = |v: Vec<PProblem>, n: usize| -> Vec<PProblem> {
        let v: Vec<PProblem> = v.into_iter().filter(|p| p.jobs.len() >= 2).collect();
        let step = (v.len() / n).max(1);
        v.into_iter().step_by(step).take(n).collect()
    };
    let n_extra = match tier {
        Tier::Quick => 6,
        _ => 18,
    };
    out.extend(pick(rc, n_extra).into_iter().map(|p| ("recharge".to_string(), p)));
    out.extend(pick(rb, n_extra).into_iter().map(|p| ("reqbreak".to_string(), p)));
    // locks matching several vehicles (core API)
    for order in ["any", "sequence", "strict"] {
        let jobs: Vec<PJob> = (0..4)
            .map(|i| PJob {
                id: format!("j{i}"),
                tasks: vec![PTask { kind: TaskKind::Delivery, places: vec![PPlace { loc: 1 + i, duration: 2., times: vec![], tag: None }], demand: vec![1], order: None }],
                skills: None,
                group: None,
                compatibility: None,
                value: None,
            })
            .collect();
        let mut p = PProblem {
            name: format!("widelock/{order}"),
            jobs,
            vehicles: vec![vehicle_type("v", 3, &[4], vec![shift(ShiftKind::Closed)])],
            matrices: vec![standard_matrix("car", 5)],
            relations: vec![],
            objectives: None,
            clustering: None,
                resources: vec![],
        };
        p = p.fit_matrices();
        out.push(("widelock".to_string(), p));
    }
    // scaled-down line problems with a relation (locks) and 2 vehicles
    for p in family_line12() {
        out.push(("line12".to_string(), p));
    }
    // ten jobs of every kind, three vehicles of two types, reload, break, skills, relation
    for p in family_mixed10() {
        out.push(("mixed10".to_string(), p));
    }
    for p in family_long50() {
        out.push(("long50".to_string(), p));
    }
    // feature interaction: pairs of feature transforms (quick: every 12th pair, thorough: every pair)
    // (clustering is a pre/post-processing of the solver: at the level of the operators a clustered problem is the plain one)
    for p in family_combo(2).into_iter().filter(|p| p.clustering.is_none()).step_by(tier.pick(12, 1)) {
        out.push(("combo".to_string(), p));
    }
    out
}

fn scen(world: &World, root: &str, history: &[(usize, u64)], names: &[String]) -> Value {
    json!({
        "family": world.family, "problem": world.problem.name, "root": root,
        "history": history.iter().map(|(o, p)| json!([names[*o], p])).collect::<Vec<_>>(),
    })
}

/// Applies history to the root; returns the reached context (None if an operator panicked on the way).
fn rebuild(world: &World, root: &InsertionContext, ops_for: &dyn Fn() -> Vec<(String, Op)>, history: &[(usize, u64)]) -> Result<InsertionContext, String> {
    let mut cur = root.deep_copy();
    for (oi, policy) in history {
        world.start(*policy);
        let ops = ops_for();
        let rctx = world.refinement_ctx(&cur);
        install_policy(PlanPolicy::Sequential);
        let next = catch(|| ops[*oi].1.search(&rctx, &cur));
        uninstall_plan();
        cur = next?;
    }
    Ok(cur)
}

fn explore(ctx: &RunCtx, world: &World, report: &mut Report) {
    let c05 = is_c05(ctx);
    let depth = ctx.tier.pick(2, 3);
    let policies: Vec<u64> = ctx.tier.pick(vec![0, 1, 2], vec![0, 1, 2, 3, 4]);
    let state_cap = ctx.tier.pick(400, 3000);
    let ops_for = || operators(&world.core, &world.env);
    let names: Vec<String> = ops_for().into_iter().map(|(n, _)| n).collect();
    let root_sink = if c05 { Some(observe_insertions(world.core.goal.clone())) } else { None };
    let mut roots = world.roots();
    // the 50-job tour (sampled leg selection): every operator once from two constructions, thorough: twice
    let (depth, state_cap) = if world.family == "long50" {
        roots.truncate(2);
        (ctx.tier.pick(1, 2), ctx.tier.pick(400, 600))
    } else {
        (depth, state_cap)
    };
    if let Some(sink) = root_sink {
        verif_observer::uninstall();
        let (n, errs, skipped) = std::mem::take(&mut *sink.borrow_mut());
        report.add_count("insertions_observed", n);
        report.add_count("insertions_not_comparable", skipped);
        for (key, what) in errs {
            report.violation(Violation::new(format!("{key}:{}", world.problem.name), what, json!({"family": world.family, "problem": world.problem.name, "root": "*", "history": []})));
        }
    }
    for (root_name, root) in roots {
        let mut seen: HashSet<u64> = HashSet::new();
        let mut frontier: VecDeque<(Vec<(usize, u64)>, InsertionContext)> = VecDeque::new();
        seen.insert(fnv64(canonical(&root).as_bytes()));
        judge_state(ctx, world, &root, &root_name, &[], &names, report);
        frontier.push_back((vec![], root.deep_copy()));
        let mut states = 1u64;
        let mut capped = false;
        while let Some((hist, state)) = frontier.pop_front() {
            if hist.len() >= depth {
                continue;
            }
            for oi in 0..names.len() {
                for &policy in &policies {
                    report.add_count("transitions", 1);
                    world.start(policy);
                    let ops = ops_for();
                    let rctx = world.refinement_ctx(&state);
                    let parent_before = if c05 { String::new() } else { full_digest(&state) };
                    install_policy(PlanPolicy::Sequential);
                    let sink = if c05 { Some(observe_insertions(world.core.goal.clone())) } else { None };
                    let next = catch(|| ops[oi].1.search(&rctx, &state));
                    uninstall_plan();
                    let mut h = hist.clone();
                    h.push((oi, policy));
                    if let Some(sink) = sink {
                        verif_observer::uninstall();
                        let (n, errs, skipped) = std::mem::take(&mut *sink.borrow_mut());
                        report.add_count("insertions_observed", n);
                        report.add_count("insertions_not_comparable", skipped);
                        let mut seen_keys = HashSet::new();
                        for (key, what) in errs {
                            if seen_keys.insert(key.clone()) {
                                report.violation(Violation::new(format!("{key}:{}", world.problem.name), format!("during {}: {what}", names[oi]), scen(world, &root_name, &h, &names)));
                            }
                        }
                    }
                    let next = match next {
                        Ok(n) => n,
                        Err(p) => {
                            if !c05 {
                                report.violation(Violation::new(format!("I7:panic@{}:{}", panic_site(&p), names[oi]), p, scen(world, &root_name, &h, &names)));
                            }
                            continue;
                        }
                    };
                    if !c05 && full_digest(&state) != parent_before {
                        report.violation(Violation::new(
                            format!("I6:parent-changed:{}", names[oi]),
                            "the solution handed to the operator is observably different after the call".to_string(),
                            scen(world, &root_name, &h, &names),
                        ));
                    }
                    if !c05 {
                        // I4: a pinned job which is on its vehicle stays there
                        for lock in world.core.locks.iter() {
                            for job in lock.details.iter().flat_map(|d| d.jobs.iter()) {
                                let vehicle_of = |c: &InsertionContext| {
                                    c.solution.routes.iter().find(|rc| rc.route().tour.contains(job)).and_then(|rc| rc.route().actor.vehicle.dimens.get_vehicle_id().cloned())
                                };
                                let (before, after) = (vehicle_of(&state), vehicle_of(&next));
                                // jobs of an `any` relation may be taken out and put back; jobs of sequence/strict relations (the
                                // `locked` set) must stay assigned. "Their vehicle" is any vehicle the lock condition accepts
                                // (one vehicle for a pragmatic relation); the state invariants judge condition, wholeness and order
                                let accepted = |c: &InsertionContext| {
                                    c.solution.routes.iter().find(|rc| rc.route().tour.contains(job)).is_none_or(|rc| (lock.condition_fn)(rc.route().actor.as_ref()))
                                };
                                let strict = state.solution.locked.contains(job);
                                let moved = (strict && after.is_none()) || !accepted(&next);
                                if before.is_some() && moved {
                                    report.violation(Violation::new(
                                        format!("I4:pinned-job-moved:{}:{}", world.family, names[oi].split('+').next().unwrap_or("")),
                                        format!("pinned job '{}' was on {before:?}, after the step it is on {after:?}", job_id(job)),
                                        scen(world, &root_name, &h, &names),
                                    ));
                                }
                            }
                        }
                    }
                    let key = fnv64(canonical(&next).as_bytes());
                    if seen.insert(key) {
                        states += 1;
                        judge_state(ctx, world, &next, &root_name, &h, &names, report);
                        if states as usize >= state_cap {
                            capped = true;
                        } else {
                            frontier.push_back((h, next));
                        }
                    }
                }
            }
            if capped {
                break;
            }
        }
        report.add_count("states", states);
        if capped {
            report.add_count("roots_capped", 1);
        }
        report.add_count("roots", 1);
    }
    report.add_count("traces_validated_against_impl", report.get_count("transitions"));
}

fn judge_state(ctx: &RunCtx, world: &World, state: &InsertionContext, root: &str, hist: &[(usize, u64)], names: &[String], report: &mut Report) {
    let last_op = hist.last().map(|(o, _)| names[*o].clone()).unwrap_or_else(|| "root".into());
    let op_class = last_op.split('+').next().unwrap_or("").to_string();
    if is_c05(ctx) {
        for (key, what) in cache_consistency(world, state, report) {
            // keyed by the input (problem) so that a known finding names a specific input
            let _ = &op_class;
            report.violation(Violation::new(format!("{key}:{}", world.problem.name), what, scen(world, root, hist, names)));
        }
    } else {
        let mut errs = structural(world, state);
        errs.extend(feasibility(world, state));
        let mut seen = HashSet::new();
        for (key, what) in errs {
            if seen.insert(key.clone()) {
                let full = if key.starts_with("I5:C01:unreachable-leg:") {
                    key.clone()
                } else if key.ends_with(":reported-before-arrival") {
                    // a recorded defect of the solution writer, whatever operator built the tour
                    format!("{key}:{}", world.family)
                } else {
                    format!("{key}:{}:{op_class}", world.family)
                };
                report.violation(Violation::new(full, what, scen(world, root, hist, names)));
            }
        }
    }
    let _ = BTreeSet::<u8>::new();
}

pub fn worker(ctx: &RunCtx, shard: usize, of: usize, _extra: &Extra) -> Report {
    let mut report = Report::new("model_checking");
    let problems = slice(ctx.tier);
    for (idx, (family, problem)) in problems.iter().enumerate() {
        if idx % of != shard {
            continue;
        }
        match World::new(family, problem) {
            Ok(world) => {
                explore(ctx, &world, &mut report);
                report.add_count("problems", 1);
                if idx % 7 == 0 {
                    report.sample(json!({"family": family, "problem": problem.name, "operators": operators(&world.core, &world.env).len()}));
                }
            }
            Err(e) => report.error(format!("cannot read problem {}: {e}", problem.name)),
        }
    }
    report
}

pub fn run(ctx: &RunCtx) -> Report {
    let n = slice(ctx.tier).len();
    let mut report = run_sharded_report(ctx, "model_checking", n, &[]);
    report.set("exhaustive", report.get_count("roots_capped") == 0);
    report.set("depth", ctx.tier.pick(2u64, 3));
    // BFS order: every transition out of a root is always executed; a root which hit its state cap stopped somewhere in depth 2
    report.set("depth_fully_covered_for_every_root", if report.get_count("roots_capped") == 0 { ctx.tier.pick(2u64, 3) } else { 1 });
    report.set("state_cap_per_root", ctx.tier.pick(400u64, 3000));
    report.set(
        "rule",
        "roots = initial constructions (4 recreate methods x 2 random policies) of a slice of the pragmatic families (+ the 12-job line problems with an `any` \
         relation); transitions = 35 shipped operators (each ruin + cheapest, string ruin + each recreate, 6 local operators, LKH x2, decompose, redistribute, \
         infeasible search, default composite) x random-answer policies {default, streams}; BFS to the depth bound with states merged on canonical tours + job \
         sets; C04: I1 partition (customer jobs by id, conditional jobs by identity), I2 registry, I3 multi-jobs, I4 locks (condition, pinned sequences whole / on one tour / in order; core-API locks accepting two vehicles), I5 feasibility by the independent oracle, I6 parent unchanged, I7 no panic; C05: cached \
         route/solution state and fitness equal a full recomputation from the bare tours, at every state and (route level, hook H5) after every applied insertion",
    );
    report.assume("random answers: default menu entry or pseudo-random streams (not the full deviation tree); state cap per root (reported as roots_capped)");
    report
}

pub fn replay(ctx: &RunCtx, scenario: &Value) -> Result<Vec<Violation>, String> {
    let family = scenario["family"].as_str().ok_or("family")?;
    let name = scenario["problem"].as_str().ok_or("problem")?;
    let (family, problem) = slice(Tier::Thorough).into_iter().chain(slice(Tier::Quick)).find(|(f, p)| f == family && p.name == name).ok_or("problem not in slice")?;
    let world = World::new(&family, &problem)?;
    let root_name = scenario["root"].as_str().ok_or("root")?;
    let (_, root) = world.roots().into_iter().find(|(n, _)| n == root_name).ok_or("root not found")?;
    let ops_for = || operators(&world.core, &world.env);
    let names: Vec<String> = ops_for().into_iter().map(|(n, _)| n).collect();
    let history: Vec<(usize, u64)> = scenario["history"]
        .as_array()
        .ok_or("history")?
        .iter()
        .filter_map(|h| Some((names.iter().position(|n| Some(n.as_str()) == h[0].as_str())?, h[1].as_u64()?)))
        .collect();
    let mut report = Report::new("model_checking");
    // C05: the per-insertion observations of the root constructions and of every step of the history
    if is_c05(ctx) {
        let sink = observe_insertions(world.core.goal.clone());
        let _ = world.roots();
        let _ = rebuild(&world, &root, &ops_for, &history);
        verif_observer::uninstall();
        let (_, errs, _) = std::mem::take(&mut *sink.borrow_mut());
        let mut seen = HashSet::new();
        for (key, what) in errs {
            if seen.insert(key.clone()) {
                report.violation(Violation::new(format!("{key}:{}", world.problem.name), what, scenario.clone()));
            }
        }
    }
    // every prefix state is judged again
    for k in 0..=history.len() {
        match rebuild(&world, &root, &ops_for, &history[..k]) {
            Ok(state) => {
                if std::env::var("VERIF_DBG").is_ok() {
                    eprintln!("DBG step {k}: {}", canonical(&state));
                }
                judge_state(ctx, &world, &state, root_name, &history[..k], &names, &mut report)
            }
            Err(p) => report.violation(Violation::new(format!("I7:panic@{}", panic_site(&p)), p, scenario.clone())),
        }
    }
    Ok(report.violations)
}
