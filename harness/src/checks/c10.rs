//! C10 — problem validation is total and matches its documented rules.
//!
//! Documents: two valid base documents (coordinates without matrix / indices with matrix) x every single edit and every
//! pair (thorough: triple) of edits of an edit catalogue (field := value from small alphabets, removals, appends).
//! Each document is read with the real reader (`read_pragmatic`) under catch_unwind and compared with an independent
//! rule model written from docs/src/concepts/pragmatic/errors/index.md:
//!  * never a panic (totality) — every document;
//!  * codes are documented ones — every document;
//!  * accepted  <=>  the model finds no broken rule, and the reported code set == the model's set — documents whose edits
//!    are all inside what the documentation pins down ("exact" edits).

use super::Extra;
use crate::*;
use serde_json::{Value, json};
use std::collections::{BTreeSet, HashMap, HashSet};
use vrp_pragmatic::format::problem::PragmaticProblem;

// ---------------------------------------------------------------------------------------------
// base documents

fn t(h: u32, m: u32) -> String {
    format!("2020-01-01T{h:02}:{m:02}:00Z")
}

fn base_coordinates() -> (Value, Vec<Value>) {
    let loc = |i: u32| json!({"lat": 52.0 + 0.1 * i as f64, "lng": 13.0 + 0.1 * i as f64});
    (
        json!({
            "plan": {
                "jobs": [
                    {"id": "job1", "deliveries": [{"places": [{"location": loc(1), "duration": 10.0, "times": [[t(9, 0), t(12, 0)], [t(13, 0), t(15, 0)]]}], "demand": [1]}]},
                    {"id": "job2", "pickups": [{"places": [{"location": loc(2), "duration": 5.0}], "demand": [2]}],
                                   "deliveries": [{"places": [{"location": loc(3), "duration": 5.0}], "demand": [2]}]},
                    {"id": "job3", "services": [{"places": [{"location": loc(4), "duration": 7.0, "times": [[t(10, 0), t(11, 0)]]}]}]},
                    {"id": "job4", "replacements": [{"places": [{"location": loc(5), "duration": 3.0}], "demand": [1]}]}
                ],
                "relations": [{"type": "any", "jobs": ["job3"], "vehicleId": "car_1"}]
            },
            "fleet": {
                "vehicles": [{
                    "typeId": "car", "vehicleIds": ["car_1", "car_2"], "profile": {"matrix": "car"},
                    "costs": {"fixed": 10.0, "distance": 1.0, "time": 1.0},
                    "shifts": [{
                        "start": {"earliest": t(8, 0), "location": loc(0)},
                        "end": {"latest": t(18, 0), "location": loc(0)},
                        "breaks": [{"time": [t(12, 0), t(13, 0)], "places": [{"duration": 30.0}]}],
                        "reloads": [{"location": loc(0), "duration": 10.0, "times": [[t(9, 0), t(17, 0)]]}]
                    }],
                    "capacity": [10]
                }],
                "profiles": [{"name": "car"}]
            }
        }),
        vec![],
    )
}

fn base_indices() -> (Value, Vec<Value>) {
    let loc = |i: u32| json!({"index": i});
    let m: Vec<i64> = (0..16).map(|k| if k / 4 == k % 4 { 0 } else { 10 + (k as i64 % 7) }).collect();
    (
        json!({
            "plan": {
                "jobs": [
                    {"id": "j1", "deliveries": [{"places": [{"location": loc(1), "duration": 10.0}], "demand": [1], "order": 1}], "value": 2.0},
                    {"id": "j2", "services": [{"places": [{"location": loc(2), "duration": 7.0}]}]},
                    {"id": "j3", "pickups": [{"places": [{"location": loc(3), "duration": 4.0}], "demand": [1]}]}
                ],
                "relations": [{"type": "strict", "jobs": ["departure", "j1", "j2"], "vehicleId": "a_1", "shiftIndex": 0}]
            },
            "fleet": {
                "vehicles": [
                    {"typeId": "a", "vehicleIds": ["a_1"], "profile": {"matrix": "car"}, "costs": {"fixed": 10.0, "distance": 1.0, "time": 1.0},
                     "shifts": [
                        {"start": {"earliest": t(8, 0), "latest": t(8, 0), "location": loc(0)}, "end": {"latest": t(12, 0), "location": loc(0)},
                         "breaks": [{"time": {"earliest": 3600.0, "latest": 7200.0}, "duration": 600.0}]},
                        // the second shift has what the first has not (a reload), and lacks what the first has (a break): rules which
                        // look at "the shift of the relation" show when they look at another one
                        {"start": {"earliest": t(13, 0), "location": loc(0)}, "end": {"latest": t(18, 0), "location": loc(0)},
                         "reloads": [{"location": loc(0), "duration": 5.0}]}
                     ], "capacity": [5]},
                    {"typeId": "b", "vehicleIds": ["b_1"], "profile": {"matrix": "car"}, "costs": {"fixed": 20.0, "distance": 2.0, "time": 0.0},
                     "shifts": [{"start": {"earliest": t(8, 0), "location": loc(0)},
                                 "reloads": [{"location": loc(0), "duration": 10.0, "resourceId": "r1"}]}], "capacity": [5]}
                ],
                "profiles": [{"name": "car"}],
                "resources": [{"type": "reload", "id": "r1", "capacity": [5]}]
            },
            "objectives": [{"type": "maximize-value"}, {"type": "minimize-unassigned"}, {"type": "tour-order"}, {"type": "minimize-cost"}]
        }),
        vec![json!({"profile": "car", "travelTimes": m, "distances": m})],
    )
}

// ---------------------------------------------------------------------------------------------
// edits

#[derive(Clone, Debug)]
enum Op {
    Set(Value),
    Remove,
    Push(Value),
}

#[derive(Clone, Debug)]
struct Edit {
    name: String,
    /// the documentation pins down what this edit means for every rule
    exact: bool,
    /// pointer into {"problem": .., "matrices": [..]}
    ptr: String,
    op: Op,
}

fn e(name: &str, exact: bool, ptr: &str, op: Op) -> Edit {
    Edit { name: name.to_string(), exact, ptr: ptr.to_string(), op }
}

fn apply(doc: &mut Value, edit: &Edit) -> bool {
    match &edit.op {
        Op::Set(v) => {
            // the parent must exist; the key may be new
            let (parent, key) = edit.ptr.rsplit_once('/').unwrap_or(("", ""));
            let Some(p) = doc.pointer_mut(parent) else { return false };
            match p {
                Value::Object(o) => {
                    o.insert(key.to_string(), v.clone());
                    true
                }
                Value::Array(a) => match key.parse::<usize>() {
                    Ok(i) if i < a.len() => {
                        a[i] = v.clone();
                        true
                    }
                    _ => false,
                },
                _ => false,
            }
        }
        Op::Remove => {
            let (parent, key) = edit.ptr.rsplit_once('/').unwrap_or(("", ""));
            let Some(p) = doc.pointer_mut(parent) else { return false };
            match p {
                Value::Object(o) => o.remove(key).is_some(),
                Value::Array(a) => match key.parse::<usize>() {
                    Ok(i) if i < a.len() => {
                        a.remove(i);
                        true
                    }
                    _ => false,
                },
                _ => false,
            }
        }
        Op::Push(v) => match doc.pointer_mut(&edit.ptr) {
            Some(Value::Array(a)) => {
                a.push(v.clone());
                true
            }
            _ => false,
        },
    }
}

/// Edit catalogue of a base document (generic part derived from the document's own structure).
fn catalogue(base: usize, doc: &Value) -> Vec<Edit> {
    use Op::*;
    let mut v = vec![];
    let p = "/problem";
    let jobs = doc.pointer("/problem/plan/jobs").and_then(|j| j.as_array()).cloned().unwrap_or_default();
    let first_id = jobs[0]["id"].as_str().unwrap_or("").to_string();
    // ---- jobs: ids
    v.push(e("job-id-duplicate", true, &format!("{p}/plan/jobs/1/id"), Set(json!(first_id))));
    for r in ["departure", "arrival", "break", "reload"] {
        v.push(e(&format!("job-id-reserved-{r}"), true, &format!("{p}/plan/jobs/2/id"), Set(json!(r))));
    }
    v.push(e("job-id-empty-string", false, &format!("{p}/plan/jobs/2/id"), Set(json!(""))));
    // ---- per task edits
    for (ji, job) in jobs.iter().enumerate() {
        for kind in ["pickups", "deliveries", "replacements", "services"] {
            let Some(tasks) = job.get(kind).and_then(|t| t.as_array()) else { continue };
            for ti in 0..tasks.len() {
                let tp = format!("{p}/plan/jobs/{ji}/{kind}/{ti}");
                let tag = format!("{}:{kind}{ti}", job["id"].as_str().unwrap_or(""));
                if kind == "services" {
                    v.push(e(&format!("{tag}:demand-on-service"), true, &format!("{tp}/demand"), Set(json!([1]))));
                } else {
                    v.push(e(&format!("{tag}:demand-removed"), true, &format!("{tp}/demand"), Remove));
                    v.push(e(&format!("{tag}:demand-negative"), true, &format!("{tp}/demand"), Set(json!([-1]))));
                    v.push(e(&format!("{tag}:demand-bigger"), true, &format!("{tp}/demand"), Set(json!([3]))));
                    v.push(e(&format!("{tag}:demand-two-dims"), true, &format!("{tp}/demand"), Set(json!([1, 1]))));
                    v.push(e(&format!("{tag}:demand-empty"), false, &format!("{tp}/demand"), Set(json!([]))));
                    v.push(e(&format!("{tag}:demand-nine-dims"), false, &format!("{tp}/demand"), Set(json!([1, 1, 1, 1, 1, 1, 1, 1, 1]))));
                    v.push(e(&format!("{tag}:demand-huge"), false, &format!("{tp}/demand"), Set(json!([2147483647]))));
                }
                v.push(e(&format!("{tag}:duration-negative"), true, &format!("{tp}/places/0/duration"), Set(json!(-1.0))));
                v.push(e(&format!("{tag}:duration-huge"), false, &format!("{tp}/places/0/duration"), Set(json!(1e300))));
                v.push(e(&format!("{tag}:places-empty"), false, &format!("{tp}/places"), Set(json!([]))));
                v.push(e(&format!("{tag}:order-zero"), true, &format!("{tp}/order"), Set(json!(0))));
                v.push(e(&format!("{tag}:order-negative"), true, &format!("{tp}/order"), Set(json!(-3))));
                v.push(e(&format!("{tag}:order-two"), true, &format!("{tp}/order"), Set(json!(2))));
                // time windows
                let tw = format!("{tp}/places/0/times");
                v.push(e(&format!("{tag}:tw-valid-single"), true, &tw, Set(json!([[t(9, 0), t(10, 0)]]))));
                v.push(e(&format!("{tag}:tw-reversed"), true, &tw, Set(json!([[t(11, 0), t(10, 0)]]))));
                v.push(e(&format!("{tag}:tw-not-a-date"), true, &tw, Set(json!([["yesterday", t(10, 0)]]))));
                v.push(e(&format!("{tag}:tw-one-element"), true, &tw, Set(json!([[t(10, 0)]]))));
                v.push(e(&format!("{tag}:tw-three-elements"), true, &tw, Set(json!([[t(9, 0), t(10, 0), t(11, 0)]]))));
                v.push(e(&format!("{tag}:tw-two-intersecting"), true, &tw, Set(json!([[t(9, 0), t(11, 0)], [t(10, 0), t(12, 0)]]))));
                v.push(e(&format!("{tag}:tw-two-disjoint"), true, &tw, Set(json!([[t(9, 0), t(10, 0)], [t(11, 0), t(12, 0)]]))));
                v.push(e(&format!("{tag}:tw-three-one-pair-intersecting"), true, &tw, Set(json!([[t(9, 0), t(11, 0)], [t(10, 0), t(12, 0)], [t(14, 0), t(15, 0)]]))));
                v.push(e(&format!("{tag}:tw-three-second-reversed"), true, &tw, Set(json!([[t(9, 0), t(10, 0)], [t(12, 0), t(11, 0)], [t(14, 0), t(15, 0)]]))));
                v.push(e(&format!("{tag}:tw-empty-list"), false, &tw, Set(json!([]))));
                v.push(e(&format!("{tag}:tw-empty-window"), true, &tw, Set(json!([[]]))));
                v.push(e(&format!("{tag}:tw-date-without-zone"), false, &tw, Set(json!([["2020-01-01T09:00:00", "2020-01-01T10:00:00"]]))));
            }
            let kp = format!("{p}/plan/jobs/{ji}/{kind}");
            v.push(e(&format!("{}:{kind}-emptied", job["id"].as_str().unwrap_or("")), true, &kp, Set(json!([]))));
            v.push(e(&format!("{}:{kind}-removed", job["id"].as_str().unwrap_or("")), true, &kp, Remove));
        }
        v.push(e(&format!("{}:value-zero", job["id"].as_str().unwrap_or("")), true, &format!("{p}/plan/jobs/{ji}/value"), Set(json!(0.0))));
        v.push(e(&format!("{}:value-half", job["id"].as_str().unwrap_or("")), true, &format!("{p}/plan/jobs/{ji}/value"), Set(json!(0.5))));
        v.push(e(&format!("{}:value-three", job["id"].as_str().unwrap_or("")), true, &format!("{p}/plan/jobs/{ji}/value"), Set(json!(3.0))));
        v.push(e(&format!("{}:value-removed", job["id"].as_str().unwrap_or("")), true, &format!("{p}/plan/jobs/{ji}/value"), Remove));
    }
    v.push(e("jobs-empty", false, &format!("{p}/plan/jobs"), Set(json!([]))));
    // a second place / window on the first job (E1203 with strict/sequence relations only)
    let place2 = if base == 0 { json!({"location": {"lat": 52.9, "lng": 13.9}, "duration": 1.0}) } else { json!({"location": {"index": 2}, "duration": 1.0}) };
    let first_kind = ["pickups", "deliveries", "replacements", "services"].into_iter().find(|k| jobs[0].get(*k).is_some()).unwrap_or("deliveries");
    v.push(e("first-job-second-place", true, &format!("{p}/plan/jobs/0/{first_kind}/0/places"), Push(place2)));
    // ---- relations
    let rp = format!("{p}/plan/relations");
    let other_job = jobs[1]["id"].as_str().unwrap_or("").to_string();
    let vehicle_ids: Vec<String> = doc
        .pointer("/problem/fleet/vehicles")
        .and_then(|x| x.as_array())
        .map(|a| a.iter().flat_map(|vt| vt["vehicleIds"].as_array().cloned().unwrap_or_default()).filter_map(|x| x.as_str().map(|s| s.to_string())).collect())
        .unwrap_or_default();
    for kind in ["any", "sequence", "strict"] {
        v.push(e(&format!("relation0-type-{kind}"), true, &format!("{rp}/0/type"), Set(json!(kind))));
    }
    v.push(e("relation0-unknown-job", true, &format!("{rp}/0/jobs"), Push(json!("nobody"))));
    v.push(e("relation0-unknown-vehicle", true, &format!("{rp}/0/vehicleId"), Set(json!("tank_9"))));
    v.push(e("relation0-jobs-empty", true, &format!("{rp}/0/jobs"), Set(json!([]))));
    v.push(e("relation0-jobs-only-reserved", true, &format!("{rp}/0/jobs"), Set(json!(["departure"]))));
    v.push(e("relation0-shift-index-1", true, &format!("{rp}/0/shiftIndex"), Set(json!(1))));
    v.push(e("relation0-shift-index-7", true, &format!("{rp}/0/shiftIndex"), Set(json!(7))));
    v.push(e("relation0-break", true, &format!("{rp}/0/jobs"), Push(json!("break"))));
    v.push(e("relation0-reload", true, &format!("{rp}/0/jobs"), Push(json!("reload"))));
    v.push(e("relation0-arrival", true, &format!("{rp}/0/jobs"), Push(json!("arrival"))));
    v.push(e("relation0-job-twice", true, &format!("{rp}/0/jobs"), Push(json!(first_id))));
    v.push(e("relation0-other-job", true, &format!("{rp}/0/jobs"), Push(json!(other_job))));
    if let Some(last) = vehicle_ids.last() {
        v.push(e("relation1-same-job-other-vehicle", true, &rp, Push(json!({"type": "any", "jobs": [first_id], "vehicleId": last}))));
        v.push(e("relation1-other-job-other-vehicle", true, &rp, Push(json!({"type": "any", "jobs": [other_job], "vehicleId": last}))));
    }
    v.push(e("relations-removed", true, &rp, Remove));
    v.push(e("relations-empty", true, &rp, Set(json!([]))));
    // ---- vehicles
    let vp = format!("{p}/fleet/vehicles");
    let vts = doc.pointer("/problem/fleet/vehicles").and_then(|x| x.as_array()).cloned().unwrap_or_default();
    let extra_type = |type_id: &str, ids: Value| -> Value {
        let mut c = vts[0].clone();
        c["typeId"] = json!(type_id);
        c["vehicleIds"] = ids;
        c
    };
    v.push(e("vehicle-type-duplicate", true, &vp, Push(extra_type(vts[0]["typeId"].as_str().unwrap_or(""), json!(["x_1"])))));
    v.push(e("vehicle-id-duplicate-across-types", true, &vp, Push(extra_type("extra", json!([vehicle_ids[0]])))));
    v.push(e("vehicle-type-extra-valid", true, &vp, Push(extra_type("extra", json!(["x_1"])))));
    v.push(e("vehicle-id-duplicate-in-type", true, &format!("{vp}/0/vehicleIds"), Push(json!(vehicle_ids[0]))));
    v.push(e("vehicle-ids-empty", false, &format!("{vp}/0/vehicleIds"), Set(json!([]))));
    v.push(e("vehicles-empty", false, &vp, Set(json!([]))));
    v.push(e("capacity-empty", false, &format!("{vp}/0/capacity"), Set(json!([]))));
    v.push(e("capacity-negative", false, &format!("{vp}/0/capacity"), Set(json!([-1]))));
    v.push(e("capacity-nine-dims", false, &format!("{vp}/0/capacity"), Set(json!([1, 1, 1, 1, 1, 1, 1, 1, 1]))));
    for (vi, vt) in vts.iter().enumerate() {
        let tp = format!("{vp}/{vi}");
        v.push(e(&format!("v{vi}:costs-both-zero"), true, &format!("{tp}/costs"), Set(json!({"fixed": 1.0, "distance": 0.0, "time": 0.0}))));
        v.push(e(&format!("v{vi}:costs-time-zero"), true, &format!("{tp}/costs"), Set(json!({"fixed": 1.0, "distance": 1.0, "time": 0.0}))));
        v.push(e(&format!("v{vi}:costs-negative"), false, &format!("{tp}/costs"), Set(json!({"fixed": -1.0, "distance": -1.0, "time": -1.0}))));
        v.push(e(&format!("v{vi}:profile-unknown"), true, &format!("{tp}/profile/matrix"), Set(json!("bike"))));
        v.push(e(&format!("v{vi}:profile-scale-zero"), false, &format!("{tp}/profile/scale"), Set(json!(0.0))));
        v.push(e(&format!("v{vi}:profile-scale-negative"), false, &format!("{tp}/profile/scale"), Set(json!(-1.0))));
        v.push(e(&format!("v{vi}:shifts-empty"), false, &format!("{tp}/shifts"), Set(json!([]))));
        v.push(e(&format!("v{vi}:limits-negative"), false, &format!("{tp}/limits"), Set(json!({"maxDistance": -1.0, "maxDuration": -1.0, "tourSize": 0}))));
        let shifts = vt["shifts"].as_array().cloned().unwrap_or_default();
        for si in 0..shifts.len() {
            let sp = format!("{tp}/shifts/{si}");
            let tag = format!("v{vi}s{si}");
            v.push(e(&format!("{tag}:start-not-a-date"), true, &format!("{sp}/start/earliest"), Set(json!("morning"))));
            v.push(e(&format!("{tag}:start-after-end"), true, &format!("{sp}/start/earliest"), Set(json!(t(23, 0)))));
            v.push(e(&format!("{tag}:start-latest-not-a-date"), false, &format!("{sp}/start/latest"), Set(json!("noon"))));
            v.push(e(&format!("{tag}:start-latest-before-earliest"), false, &format!("{sp}/start/latest"), Set(json!(t(1, 0)))));
            v.push(e(&format!("{tag}:start-latest-later"), true, &format!("{sp}/start/latest"), Set(json!(t(9, 30)))));
            v.push(e(&format!("{tag}:end-not-a-date"), true, &format!("{sp}/end"), Set(json!({"latest": "evening", "location": shifts[si]["start"]["location"]}))));
            v.push(e(&format!("{tag}:end-earliest-not-a-date"), false, &format!("{sp}/end"), Set(json!({"earliest": "soon", "latest": t(18, 0), "location": shifts[si]["start"]["location"]}))));
            v.push(e(&format!("{tag}:end-removed"), true, &format!("{sp}/end"), Remove));
            // breaks
            v.push(e(&format!("{tag}:breaks-removed"), true, &format!("{sp}/breaks"), Remove));
            v.push(e(&format!("{tag}:break-window-inside"), true, &format!("{sp}/breaks"), Set(json!([{"time": [t(10, 0), t(10, 30)], "places": [{"duration": 10.0}]}]))));
            v.push(e(&format!("{tag}:break-window-outside-shift"), true, &format!("{sp}/breaks"), Set(json!([{"time": [t(20, 0), t(21, 0)], "places": [{"duration": 10.0}]}]))));
            v.push(e(&format!("{tag}:break-window-reversed"), true, &format!("{sp}/breaks"), Set(json!([{"time": [t(11, 0), t(10, 0)], "places": [{"duration": 10.0}]}]))));
            v.push(e(&format!("{tag}:break-window-not-a-date"), true, &format!("{sp}/breaks"), Set(json!([{"time": ["lunch", t(10, 0)], "places": [{"duration": 10.0}]}]))));
            v.push(e(&format!("{tag}:break-two-intersecting"), true, &format!("{sp}/breaks"), Set(json!([{"time": [t(10, 0), t(10, 40)], "places": [{"duration": 10.0}]}, {"time": [t(10, 20), t(11, 0)], "places": [{"duration": 10.0}]}]))));
            v.push(e(&format!("{tag}:break-three-one-outside"), true, &format!("{sp}/breaks"), Set(json!([{"time": [t(9, 0), t(9, 10)], "places": [{"duration": 5.0}]}, {"time": [t(10, 0), t(10, 10)], "places": [{"duration": 5.0}]}, {"time": [t(21, 0), t(22, 0)], "places": [{"duration": 5.0}]}]))));
            v.push(e(&format!("{tag}:break-offset-optional"), true, &format!("{sp}/breaks"), Set(json!([{"time": [3600.0, 4000.0], "places": [{"duration": 10.0}]}]))));
            v.push(e(&format!("{tag}:break-offset-required"), true, &format!("{sp}/breaks"), Set(json!([{"time": {"earliest": 3600.0, "latest": 4000.0}, "duration": 10.0}]))));
            v.push(e(&format!("{tag}:break-exact-required"), true, &format!("{sp}/breaks"), Set(json!([{"time": {"earliest": t(10, 0), "latest": t(10, 30)}, "duration": 10.0}]))));
            v.push(e(&format!("{tag}:break-exact-required-not-a-date"), true, &format!("{sp}/breaks"), Set(json!([{"time": {"earliest": "ten", "latest": t(10, 30)}, "duration": 10.0}]))));
            v.push(e(&format!("{tag}:break-exact-required-latest-not-a-date"), true, &format!("{sp}/breaks"), Set(json!([{"time": {"earliest": t(10, 0), "latest": "half past ten"}, "duration": 10.0}]))));
            v.push(e(&format!("{tag}:break-exact-required-reversed"), true, &format!("{sp}/breaks"), Set(json!([{"time": {"earliest": t(10, 30), "latest": t(10, 0)}, "duration": 10.0}]))));
            v.push(e(&format!("{tag}:break-offset-required-reversed"), false, &format!("{sp}/breaks"), Set(json!([{"time": {"earliest": 4000.0, "latest": 3600.0}, "duration": 10.0}]))));
            v.push(e(&format!("{tag}:break-offset-one-element"), false, &format!("{sp}/breaks"), Set(json!([{"time": [3600.0], "places": [{"duration": 10.0}]}]))));
            v.push(e(&format!("{tag}:break-places-empty"), false, &format!("{sp}/breaks"), Set(json!([{"time": [t(10, 0), t(10, 30)], "places": []}]))));
            v.push(e(&format!("{tag}:break-window-one-element"), true, &format!("{sp}/breaks"), Set(json!([{"time": [t(10, 0)], "places": [{"duration": 10.0}]}]))));
            v.push(e(&format!("{tag}:breaks-empty"), false, &format!("{sp}/breaks"), Set(json!([]))));
            // reloads
            let rl = shifts[si]["start"]["location"].clone();
            v.push(e(&format!("{tag}:reloads-removed"), true, &format!("{sp}/reloads"), Remove));
            v.push(e(&format!("{tag}:reload-inside"), true, &format!("{sp}/reloads"), Set(json!([{"location": rl, "duration": 5.0, "times": [[t(10, 0), t(11, 0)]]}]))));
            v.push(e(&format!("{tag}:reload-outside-shift"), true, &format!("{sp}/reloads"), Set(json!([{"location": rl, "duration": 5.0, "times": [[t(21, 0), t(22, 0)]]}]))));
            v.push(e(&format!("{tag}:reload-reversed"), true, &format!("{sp}/reloads"), Set(json!([{"location": rl, "duration": 5.0, "times": [[t(11, 0), t(10, 0)]]}]))));
            v.push(e(&format!("{tag}:reload-not-a-date"), true, &format!("{sp}/reloads"), Set(json!([{"location": rl, "duration": 5.0, "times": [["x", t(10, 0)]]}]))));
            v.push(e(&format!("{tag}:reloads-intersecting"), true, &format!("{sp}/reloads"), Set(json!([{"location": rl, "duration": 5.0, "times": [[t(10, 0), t(11, 0)]]}, {"location": rl, "duration": 5.0, "times": [[t(10, 30), t(11, 30)]]}]))));
            v.push(e(&format!("{tag}:reloads-three-one-outside"), true, &format!("{sp}/reloads"), Set(json!([{"location": rl, "duration": 5.0, "times": [[t(9, 0), t(9, 30)]]}, {"location": rl, "duration": 5.0, "times": [[t(10, 30), t(11, 30)]]}, {"location": rl, "duration": 5.0, "times": [[t(21, 30), t(22, 30)]]}]))));
            v.push(e(&format!("{tag}:reload-unknown-resource"), true, &format!("{sp}/reloads"), Set(json!([{"location": rl, "duration": 5.0, "resourceId": "nothing"}]))));
            v.push(e(&format!("{tag}:reload-duration-negative"), false, &format!("{sp}/reloads"), Set(json!([{"location": rl, "duration": -5.0}]))));
            v.push(e(&format!("{tag}:reloads-empty"), false, &format!("{sp}/reloads"), Set(json!([]))));
            v.push(e(&format!("{tag}:recharges"), false, &format!("{sp}/recharges"), Set(json!({"maxDistance": -5.0, "stations": []}))));
        }
        // an additional shift
        let loc0 = shifts[0]["start"]["location"].clone();
        v.push(e(&format!("v{vi}:shift-extra-disjoint"), true, &format!("{tp}/shifts"), Push(json!({"start": {"earliest": t(19, 0), "location": loc0}, "end": {"latest": t(20, 0), "location": loc0}}))));
        v.push(e(&format!("v{vi}:shift-extra-intersecting"), true, &format!("{tp}/shifts"), Push(json!({"start": {"earliest": t(9, 0), "location": loc0}, "end": {"latest": t(10, 0), "location": loc0}}))));
    }
    // resources
    v.push(e("resources-duplicate", true, &format!("{p}/fleet/resources"), Set(json!([{"type": "reload", "id": "r1", "capacity": [5]}, {"type": "reload", "id": "r1", "capacity": [6]}]))));
    v.push(e("resources-removed", true, &format!("{p}/fleet/resources"), Remove));
    // ---- profiles / routing
    v.push(e("profiles-empty", true, &format!("{p}/fleet/profiles"), Set(json!([]))));
    v.push(e("profiles-duplicate", true, &format!("{p}/fleet/profiles"), Push(json!({"name": "car"}))));
    v.push(e("profiles-extra", true, &format!("{p}/fleet/profiles"), Push(json!({"name": "bike"}))));
    v.push(e("profile-speed-zero", false, &format!("{p}/fleet/profiles/0/speed"), Set(json!(0.0))));
    v.push(e("profile-speed-negative", false, &format!("{p}/fleet/profiles/0/speed"), Set(json!(-3.0))));
    let other_loc = if base == 0 { json!({"index": 1}) } else { json!({"lat": 1.0, "lng": 2.0}) };
    v.push(e("location-type-mixed", true, &format!("{p}/plan/jobs/0/{first_kind}/0/places/0/location"), Set(other_loc)));
    if base == 1 {
        v.push(e("location-index-beyond-matrix", true, &format!("{p}/plan/jobs/0/{first_kind}/0/places/0/location"), Set(json!({"index": 9}))));
        v.push(e("matrices-none", true, "/matrices", Set(json!([]))));
        v.push(e("matrix-bigger", true, "/matrices/0", Set(json!({"profile": "car", "travelTimes": vec![1; 25], "distances": vec![1; 25]}))));
        v.push(e("matrix-smaller", true, "/matrices/0", Set(json!({"profile": "car", "travelTimes": vec![1; 9], "distances": vec![1; 9]}))));
        v.push(e("matrix-times-shorter", false, "/matrices/0/travelTimes", Set(json!(vec![1; 9]))));
        v.push(e("matrix-not-square", false, "/matrices/0", Set(json!({"profile": "car", "travelTimes": vec![1; 15], "distances": vec![1; 15]}))));
        v.push(e("matrix-empty", false, "/matrices/0", Set(json!({"profile": "car", "travelTimes": [], "distances": []}))));
        v.push(e("matrix-negative", false, "/matrices/0/distances/1", Set(json!(-5))));
        v.push(e("matrix-error-codes-short", false, "/matrices/0/errorCodes", Set(json!([1, 1]))));
        v.push(e("matrix-error-codes-all", false, "/matrices/0/errorCodes", Set(json!(vec![1; 16]))));
        v.push(e("matrix-profile-unknown", false, "/matrices/0/profile", Set(json!("bike"))));
        v.push(e("matrix-profile-missing", false, "/matrices/0/profile", Remove));
        v.push(e("matrix-timestamp", false, "/matrices/0/timestamp", Set(json!(t(8, 0)))));
        v.push(e("matrix-timestamp-not-a-date", false, "/matrices/0/timestamp", Set(json!("now"))));
        v.push(e("matrix-second-other-size", false, "/matrices", Push(json!({"profile": "car", "travelTimes": vec![1; 9], "distances": vec![1; 9]}))));
    }
    // clustering
    v.push(e("clustering-unknown-profile", true, &format!("{p}/plan/clustering"), Set(json!({"type": "vicinity", "profile": {"matrix": "boat"}, "threshold": {"duration": 10.0, "distance": 10.0}, "visiting": "continue", "serving": {"type": "original", "parking": 1.0}}))));
    v.push(e("clustering-valid", true, &format!("{p}/plan/clustering"), Set(json!({"type": "vicinity", "profile": {"matrix": "car"}, "threshold": {"duration": 10.0, "distance": 10.0}, "visiting": "continue", "serving": {"type": "original", "parking": 1.0}}))));
    v.push(e("clustering-negative", false, &format!("{p}/plan/clustering"), Set(json!({"type": "vicinity", "profile": {"matrix": "car"}, "threshold": {"duration": -10.0, "distance": -10.0, "maxJobsPerCluster": 0}, "visiting": "return", "serving": {"type": "multiplier", "value": -1.0, "parking": -1.0}}))));
    // ---- objectives
    let op = format!("{p}/objectives");
    v.push(e("objectives-removed", true, &op, Remove));
    v.push(e("objectives-empty", true, &op, Set(json!([]))));
    v.push(e("objectives-default-like", true, &op, Set(json!([{"type": "minimize-unassigned"}, {"type": "minimize-tours"}, {"type": "minimize-cost"}]))));
    v.push(e("objectives-duplicate", true, &op, Set(json!([{"type": "minimize-unassigned"}, {"type": "minimize-unassigned"}, {"type": "minimize-cost"}]))));
    v.push(e("objectives-no-cost", true, &op, Set(json!([{"type": "minimize-unassigned"}, {"type": "minimize-tours"}]))));
    v.push(e("objectives-two-costs", true, &op, Set(json!([{"type": "minimize-unassigned"}, {"type": "minimize-cost"}, {"type": "minimize-distance"}]))));
    v.push(e("objectives-with-value", true, &op, Set(json!([{"type": "maximize-value"}, {"type": "minimize-unassigned"}, {"type": "minimize-cost"}]))));
    v.push(e("objectives-with-order", true, &op, Set(json!([{"type": "minimize-unassigned"}, {"type": "tour-order"}, {"type": "minimize-cost"}]))));
    v.push(e("objectives-with-value-and-order", true, &op, Set(json!([{"type": "maximize-value"}, {"type": "minimize-unassigned"}, {"type": "tour-order"}, {"type": "minimize-duration"}]))));
    v.push(e("objectives-nested", false, &op, Set(json!([{"type": "minimize-unassigned"}, {"type": "multi-objective", "strategy": {"name": "sum"}, "objectives": [{"type": "minimize-cost"}, {"type": "maximize-value"}]}]))));
    v.push(e("objectives-nested-empty", false, &op, Set(json!([{"type": "multi-objective", "strategy": {"name": "sum"}, "objectives": []}, {"type": "minimize-cost"}]))));
    v.push(e("objectives-weights-mismatch", false, &op, Set(json!([{"type": "multi-objective", "strategy": {"name": "weighted-sum", "weights": [1.0]}, "objectives": [{"type": "minimize-cost"}, {"type": "minimize-tours"}]}]))));
    v.push(e("objectives-compact-zero-radius", false, &op, Set(json!([{"type": "minimize-unassigned"}, {"type": "compact-tour", "job_radius": 0}, {"type": "minimize-cost"}]))));
    v.push(e("objectives-hierarchical-zero", false, &op, Set(json!([{"type": "minimize-unassigned"}, {"type": "hierarchical-areas", "levels": 0}, {"type": "minimize-cost"}]))));
    v
}

// ---------------------------------------------------------------------------------------------
// rule model (from docs/src/concepts/pragmatic/errors/index.md)

fn parse_rfc3339(s: &str) -> Option<i64> {
    // YYYY-MM-DDTHH:MM:SSZ only (the catalogue writes nothing else); anything else is "not a date"
    let b = s.as_bytes();
    if b.len() != 20 || b[4] != b'-' || b[7] != b'-' || b[10] != b'T' || b[13] != b':' || b[16] != b':' || b[19] != b'Z' {
        return None;
    }
    let n = |r: std::ops::Range<usize>| s.get(r).and_then(|x| x.parse::<i64>().ok());
    let (y, mo, d, h, mi, se) = (n(0..4)?, n(5..7)?, n(8..10)?, n(11..13)?, n(14..16)?, n(17..19)?);
    if !(1..=12).contains(&mo) || !(1..=31).contains(&d) || h > 23 || mi > 59 || se > 59 {
        return None;
    }
    Some((((y * 12 + mo) * 31 + d) * 24 + h) * 3600 + mi * 60 + se)
}

/// A list of windows obeys the E1103 rules: Some(true/false); None = the documentation does not decide (touching / equal).
fn windows_ok(list: &Value, allow_intersections: bool) -> Option<bool> {
    let arr = list.as_array()?;
    let mut parsed = vec![];
    for w in arr {
        let w = w.as_array()?;
        if w.len() != 2 {
            return Some(false);
        }
        let (Some(a), Some(b)) = (w[0].as_str().and_then(parse_rfc3339), w[1].as_str().and_then(parse_rfc3339)) else { return Some(false) };
        if a == b {
            return None;
        }
        if a > b {
            return Some(false);
        }
        parsed.push((a, b));
    }
    if !allow_intersections {
        for i in 0..parsed.len() {
            for j in i + 1..parsed.len() {
                let (x, y) = (parsed[i], parsed[j]);
                if x.1 == y.0 || y.1 == x.0 {
                    return None;
                }
                if x.0 < y.1 && y.0 < x.1 {
                    return Some(false);
                }
            }
        }
    }
    Some(true)
}

const TASK_KINDS: [&str; 4] = ["pickups", "deliveries", "replacements", "services"];

fn tasks_of<'a>(job: &'a Value) -> Vec<(&'static str, &'a Value)> {
    TASK_KINDS.iter().flat_map(|k| job.get(*k).and_then(|t| t.as_array()).into_iter().flatten().map(move |t| (*k, t))).collect()
}

fn is_reserved(id: &str) -> bool {
    ["departure", "arrival", "break", "reload"].contains(&id)
}

/// Returns the set of broken rules, None when the documentation leaves the document undecided.
fn model(problem: &Value, matrices: &[Value]) -> Option<BTreeSet<String>> {
    let mut codes = BTreeSet::new();
    let mut add = |c: &str| {
        codes.insert(c.to_string());
    };
    let empty = vec![];
    let jobs = problem.pointer("/plan/jobs").and_then(|j| j.as_array()).unwrap_or(&empty);
    let vehicles = problem.pointer("/fleet/vehicles").and_then(|j| j.as_array()).unwrap_or(&empty);
    let profiles = problem.pointer("/fleet/profiles").and_then(|j| j.as_array()).unwrap_or(&empty);
    // ---- jobs
    let mut ids = HashSet::new();
    for job in jobs {
        let id = job["id"].as_str().unwrap_or("");
        if !ids.insert(id) {
            add("E1100");
        }
        if is_reserved(id) {
            add("E1104");
        }
        let tasks = tasks_of(job);
        if tasks.is_empty() {
            add("E1105");
        }
        let mut sums: HashMap<&str, Vec<i64>> = HashMap::new();
        for (kind, task) in &tasks {
            let demand = task.get("demand").and_then(|d| d.as_array());
            match (*kind, demand) {
                ("services", Some(_)) => add("E1101"),
                ("services", None) => {}
                (_, None) => add("E1101"),
                (_, Some(d)) => {
                    if d.iter().any(|x| x.as_i64().unwrap_or(0) < 0) {
                        add("E1107");
                    }
                    let s = sums.entry(kind).or_default();
                    for (i, x) in d.iter().enumerate() {
                        if s.len() <= i {
                            s.resize(i + 1, 0);
                        }
                        s[i] += x.as_i64().unwrap_or(0);
                    }
                }
            }
            for place in task["places"].as_array().unwrap_or(&empty) {
                if place["duration"].as_f64().unwrap_or(0.) < 0. {
                    add("E1106");
                }
                if let Some(times) = place.get("times") {
                    match windows_ok(times, false) {
                        Some(true) => {}
                        Some(false) => add("E1103"),
                        None => return None,
                    }
                }
            }
        }
        let has = |k: &str| job.get(k).and_then(|t| t.as_array()).is_some_and(|t| !t.is_empty());
        if has("pickups") && has("deliveries") {
            let mut p = sums.get("pickups").cloned().unwrap_or_default();
            let mut d = sums.get("deliveries").cloned().unwrap_or_default();
            let n = p.len().max(d.len());
            p.resize(n, 0);
            d.resize(n, 0);
            if p != d {
                add("E1102");
            }
        }
    }
    // ---- vehicles
    let mut type_ids = HashSet::new();
    let mut vehicle_ids: HashMap<String, &Value> = HashMap::new();
    let resources = problem.pointer("/fleet/resources").and_then(|r| r.as_array()).unwrap_or(&empty);
    let mut resource_ids = HashSet::new();
    for r in resources {
        if !resource_ids.insert(r["id"].as_str().unwrap_or("")) {
            add("E1308");
        }
    }
    for vt in vehicles {
        if !type_ids.insert(vt["typeId"].as_str().unwrap_or("")) {
            add("E1300");
        }
        for id in vt["vehicleIds"].as_array().unwrap_or(&empty) {
            if vehicle_ids.insert(id.as_str().unwrap_or("").to_string(), vt).is_some() {
                add("E1301");
            }
        }
        if vt["costs"]["time"].as_f64() == Some(0.) && vt["costs"]["distance"].as_f64() == Some(0.) {
            add("E1306");
        }
        // shift times obey the window rules; several shifts must not intersect
        let shifts = vt["shifts"].as_array().unwrap_or(&empty);
        let shift_windows: Vec<Value> = shifts
            .iter()
            .map(|s| {
                let start = s["start"]["earliest"].clone();
                let end = s.get("end").map(|e| e["latest"].clone());
                json!([start, end])
            })
            .collect();
        let mut shift_ok = true;
        let mut spans: Vec<Option<(i64, i64)>> = vec![];
        for (s, w) in shifts.iter().zip(shift_windows.iter()) {
            let a = w[0].as_str().and_then(parse_rfc3339);
            match (a, s.get("end")) {
                (None, _) => {
                    shift_ok = false;
                    spans.push(None)
                }
                (Some(a), None) => spans.push(Some((a, i64::MAX))),
                (Some(a), Some(_)) => match w[1].as_str().and_then(parse_rfc3339) {
                    None => {
                        shift_ok = false;
                        spans.push(None)
                    }
                    Some(b) if b < a => {
                        shift_ok = false;
                        spans.push(None)
                    }
                    Some(b) if b == a => return None,
                    Some(b) => spans.push(Some((a, b))),
                },
            }
        }
        for i in 0..spans.len() {
            for j in i + 1..spans.len() {
                if let (Some(x), Some(y)) = (spans[i], spans[j]) {
                    // an open shift (no end) next to other shifts: the documentation does not say how far it reaches
                    if x.1 == i64::MAX || y.1 == i64::MAX {
                        return None;
                    }
                    if x.1 == y.0 || y.1 == x.0 {
                        return None;
                    }
                    if x.0 < y.1 && y.0 < x.1 {
                        shift_ok = false;
                    }
                }
            }
        }
        if !shift_ok {
            add("E1302");
        }
        for (si, s) in shifts.iter().enumerate() {
            let span = spans[si];
            let inside = |w: (i64, i64)| -> Option<bool> {
                let Some((a, b)) = span else { return None };
                if w.0 >= a && w.1 <= b {
                    Some(true)
                } else if w.1 < a || w.0 > b {
                    Some(false)
                } else {
                    None // partially inside: "should be inside" vs the implementation's "intersects"
                }
            };
            if let Some(breaks) = s.get("breaks").and_then(|b| b.as_array()) {
                // shift times invalid: whether its breaks are judged at all is not pinned down
                if span.is_none() && !breaks.is_empty() {
                    return None;
                }
                let mut windows = vec![];
                let mut has_offset = false;
                let mut bad = false;
                for b in breaks {
                    match &b["time"] {
                        Value::Array(a) if a.iter().all(|x| x.is_number()) => has_offset = true,
                        Value::Array(_) => match windows_ok(&json!([b["time"]]), false) {
                            Some(true) => {
                                let a = b["time"].as_array().unwrap();
                                windows.push((parse_rfc3339(a[0].as_str().unwrap()).unwrap(), parse_rfc3339(a[1].as_str().unwrap()).unwrap()));
                            }
                            Some(false) => bad = true,
                            None => return None,
                        },
                        Value::Object(o) => {
                            if o.get("earliest").is_some_and(|x| x.is_number()) {
                                has_offset = true;
                                // an offset window is relative to the departure; its position in the shift is not modelled
                                if let (Some((a, _)), Some(e), Some(l)) = (span, o["earliest"].as_f64(), o["latest"].as_f64()) {
                                    windows.push((a + e as i64, a + l as i64 + b["duration"].as_f64().unwrap_or(0.) as i64));
                                }
                            } else {
                                match (o.get("earliest").and_then(|x| x.as_str()).and_then(parse_rfc3339), o.get("latest").and_then(|x| x.as_str()).and_then(parse_rfc3339)) {
                                    (Some(a), Some(l)) if a < l => windows.push((a, l + b["duration"].as_f64().unwrap_or(0.) as i64)),
                                    (Some(a), Some(l)) if a == l => return None,
                                    _ => bad = true,
                                }
                            }
                        }
                        _ => return None,
                    }
                }
                for i in 0..windows.len() {
                    for j in i + 1..windows.len() {
                        let (x, y) = (windows[i], windows[j]);
                        if x.1 == y.0 || y.1 == x.0 {
                            return None;
                        }
                        if x.0 < y.1 && y.0 < x.1 {
                            bad = true;
                        }
                    }
                }
                if span.is_some() {
                    for w in &windows {
                        match inside(*w) {
                            Some(true) => {}
                            Some(false) => bad = true,
                            None => return None,
                        }
                    }
                } else if !windows.is_empty() {
                    // shift times invalid: whether E1303 is also due is not pinned down
                    return None;
                }
                if bad {
                    add("E1303");
                }
                let latest = s["start"].get("latest");
                if has_offset && latest != Some(&s["start"]["earliest"]) {
                    add("E1307");
                }
            }
            if let Some(reloads) = s.get("reloads").and_then(|b| b.as_array()) {
                let mut bad = false;
                for r in reloads {
                    if let Some(times) = r.get("times") {
                        match windows_ok(times, true) {
                            Some(true) => {
                                for w in times.as_array().unwrap() {
                                    let w = (parse_rfc3339(w[0].as_str().unwrap()).unwrap(), parse_rfc3339(w[1].as_str().unwrap()).unwrap());
                                    if span.is_none() {
                                        return None;
                                    }
                                    match inside(w) {
                                        Some(true) => {}
                                        Some(false) => bad = true,
                                        None => return None,
                                    }
                                }
                            }
                            Some(false) => bad = true,
                            None => return None,
                        }
                    }
                    if let Some(rid) = r.get("resourceId").and_then(|x| x.as_str()) {
                        if !resource_ids.contains(rid) {
                            add("E1308");
                        }
                    }
                }
                if bad {
                    add("E1304");
                }
            }
        }
    }
    // ---- relations
    if let Some(relations) = problem.pointer("/plan/relations").and_then(|r| r.as_array()) {
        // a plan job carrying a reserved id which a relation names as well: job or marker? not pinned down
        let reserved_plan_ids: Vec<&str> = jobs.iter().filter_map(|j| j["id"].as_str()).filter(|id| is_reserved(id)).collect();
        if relations.iter().any(|r| r["jobs"].as_array().is_some_and(|a| a.iter().any(|j| j.as_str().is_some_and(|j| reserved_plan_ids.contains(&j))))) {
            return None;
        }
        let job_by_id: HashMap<&str, &Value> = jobs.iter().map(|j| (j["id"].as_str().unwrap_or(""), j)).collect();
        let mut vehicle_of_job: HashMap<&str, &str> = HashMap::new();
        for rel in relations {
            let rel_jobs: Vec<&str> = rel["jobs"].as_array().unwrap_or(&empty).iter().filter_map(|j| j.as_str()).collect();
            let vehicle_id = rel["vehicleId"].as_str().unwrap_or("");
            let kind = rel["type"].as_str().unwrap_or("");
            let plain: Vec<&str> = rel_jobs.iter().copied().filter(|j| !is_reserved(j)).collect();
            if plain.iter().any(|j| !job_by_id.contains_key(j)) {
                add("E1200");
            }
            if !vehicle_ids.contains_key(vehicle_id) {
                add("E1201");
            }
            if plain.is_empty() {
                add("E1202");
            }
            if kind == "strict" || kind == "sequence" {
                for j in &plain {
                    if let Some(job) = job_by_id.get(j) {
                        if tasks_of(job).iter().any(|(_, task)| {
                            let places = task["places"].as_array().unwrap_or(&empty);
                            places.len() > 1 || places.iter().any(|p| p.get("times").and_then(|t| t.as_array()).is_some_and(|t| t.len() > 1))
                        }) {
                            add("E1203");
                        }
                    }
                }
            }
            for j in &plain {
                if *vehicle_of_job.entry(j).or_insert(vehicle_id) != vehicle_id {
                    add("E1204");
                }
            }
            if let Some(vt) = vehicle_ids.get(vehicle_id) {
                let shift_index = rel.get("shiftIndex").and_then(|x| x.as_u64()).unwrap_or(0) as usize;
                match vt["shifts"].as_array().and_then(|s| s.get(shift_index)) {
                    None => add("E1205"),
                    Some(shift) => {
                        for j in rel_jobs.iter().filter(|j| is_reserved(j)) {
                            // property present but without a job a relation could refer to (empty list, required breaks only):
                            // "not defined" does not decide this case
                            let only_required = |b: &Value| b.as_array().is_some_and(|a| !a.iter().any(|x| x.get("places").is_some()));
                            if (*j == "break" && shift.get("breaks").is_some_and(only_required))
                                || (*j == "reload" && shift.get("reloads").and_then(|r| r.as_array()).is_some_and(|r| r.is_empty()))
                            {
                                return None;
                            }
                            let missing = match *j {
                                "break" => shift.get("breaks").is_none(),
                                "reload" => shift.get("reloads").is_none(),
                                "arrival" => shift.get("end").is_none(),
                                _ => false,
                            };
                            if missing {
                                add("E1206");
                            }
                        }
                    }
                }
            }
            for j in &plain {
                if let Some(job) = job_by_id.get(j) {
                    if plain.iter().filter(|x| *x == j).count() != tasks_of(job).len() {
                        add("E1207");
                    }
                }
            }
        }
    }
    // ---- routing
    let mut names = HashSet::new();
    for p in profiles {
        if !names.insert(p["name"].as_str().unwrap_or("")) {
            add("E1500");
        }
    }
    if profiles.is_empty() {
        add("E1501");
    }
    let mut coords = HashSet::new();
    let mut max_index: Option<u64> = None;
    let mut index_count = HashSet::new();
    fn walk(v: &Value, f: &mut dyn FnMut(&Value)) {
        match v {
            Value::Object(o) => {
                if let Some(l) = o.get("location") {
                    f(l);
                }
                for (_, x) in o {
                    walk(x, f);
                }
            }
            Value::Array(a) => a.iter().for_each(|x| walk(x, f)),
            _ => {}
        }
    }
    walk(problem, &mut |l: &Value| {
        if let Some(i) = l.get("index").and_then(|x| x.as_u64()) {
            max_index = Some(max_index.map_or(i, |m| m.max(i)));
            index_count.insert(i);
        } else if l.get("lat").is_some() {
            coords.insert(l.to_string());
        }
    });
    let has_indices = max_index.is_some();
    let has_coords = !coords.is_empty();
    if has_indices && has_coords {
        add("E1502");
    }
    if has_indices && matrices.is_empty() {
        add("E1503");
    }
    if let Some(m) = matrices.first() {
        let n = (m["distances"].as_array().map_or(0, |a| a.len()) as f64).sqrt().round() as u64;
        if has_indices && !has_coords {
            // documented: "location indices are used and max index is greater than matrix size"
            let mi = max_index.unwrap_or(0);
            if mi + 1 > n {
                add("E1504");
            } else if mi + 1 < n {
                // fewer locations than the matrix holds: the documentation names only "greater"
                return None;
            }
        } else if has_coords && !has_indices {
            if coords.len() as u64 > n {
                add("E1504");
            } else if (coords.len() as u64) < n {
                return None;
            }
        } else {
            return None;
        }
    }
    for vt in vehicles {
        if !names.contains(vt["profile"]["matrix"].as_str().unwrap_or("")) {
            add("E1505");
        }
    }
    if let Some(c) = problem.pointer("/plan/clustering") {
        if !names.contains(c["profile"]["matrix"].as_str().unwrap_or("")) {
            add("E1505");
        }
    }
    // ---- objectives
    let any_value = jobs.iter().any(|j| j.get("value").and_then(|v| v.as_f64()).is_some_and(|v| v > 0.));
    let any_order = jobs.iter().any(|j| tasks_of(j).iter().any(|(_, t)| t.get("order").and_then(|o| o.as_i64()).is_some_and(|o| o > 0)));
    let bad_value_or_order = jobs.iter().any(|j| {
        j.get("value").and_then(|v| v.as_f64()).is_some_and(|v| v < 1.) || tasks_of(j).iter().any(|(_, t)| t.get("order").and_then(|o| o.as_i64()).is_some_and(|o| o < 1))
    });
    match problem.get("objectives").and_then(|o| o.as_array()) {
        Some(objs) => {
            let types: Vec<&str> = objs.iter().filter_map(|o| o["type"].as_str()).collect();
            if types.contains(&"multi-objective") {
                return None;
            }
            if types.is_empty() {
                add("E1600");
            }
            let mut seen = HashSet::new();
            if types.iter().any(|t| !seen.insert(*t)) {
                add("E1601");
            }
            let costs = types.iter().filter(|t| ["minimize-cost", "minimize-distance", "minimize-duration"].contains(t)).count();
            if costs == 0 {
                add("E1602");
            }
            if costs > 1 {
                add("E1606");
            }
            if types.contains(&"maximize-value") && !any_value {
                add("E1603");
            }
            if types.contains(&"tour-order") && !any_order {
                add("E1604");
            }
            if bad_value_or_order {
                add("E1605");
            }
            if !types.is_empty() && !types.contains(&"maximize-value") && any_value {
                add("E1607");
            }
        }
        None => {
            // E1605 sits in the objectives chapter: whether it applies without an objectives property is not pinned down
            if bad_value_or_order {
                return None;
            }
        }
    }
    Some(codes)
}

// ---------------------------------------------------------------------------------------------

fn read(problem: &Value, matrices: &[Value]) -> Result<Result<(), Vec<String>>, String> {
    let p = problem.to_string();
    let m: Vec<String> = matrices.iter().map(|m| m.to_string()).collect();
    catch(move || {
        let r = if m.is_empty() { p.read_pragmatic() } else { (p, m).read_pragmatic() };
        match r {
            Ok(_) => Ok(()),
            Err(errs) => Err(errs.errors.iter().map(|e| e.code.clone()).collect::<Vec<_>>()),
        }
    })
}

const DOCUMENTED: [&str; 49] = [
    "E0000", "E0001", "E0002", "E0003", "E0004", "E1100", "E1101", "E1102", "E1103", "E1104", "E1105", "E1106", "E1107", "E1200", "E1201", "E1202", "E1203", "E1204", "E1205",
    "E1206", "E1207", "E1300", "E1301", "E1302", "E1303", "E1304", "E1306", "E1307", "E1308", "E1500", "E1501", "E1502", "E1503", "E1504", "E1505", "E1600", "E1601", "E1602",
    "E1603", "E1604", "E1605", "E1606", "E1607", "-", "-", "-", "-", "-", "-",
];

/// Builds the document; None when an edit does not apply.
fn build(base: usize, edits: &[&Edit]) -> Option<(Value, Vec<Value>)> {
    let (problem, matrices) = if base == 0 { base_coordinates() } else { base_indices() };
    let mut doc = json!({"problem": problem, "matrices": matrices});
    for ed in edits {
        if !apply(&mut doc, ed) {
            return None;
        }
    }
    Some((doc["problem"].clone(), doc["matrices"].as_array().cloned().unwrap_or_default()))
}

/// (spurious codes, missing codes) of an exactly judged document; None if not comparable.
fn discrepancy(base: usize, edits: &[&Edit]) -> Option<(BTreeSet<String>, BTreeSet<String>)> {
    let (problem, matrices) = build(base, edits)?;
    let want = model(&problem, &matrices)?;
    let got: BTreeSet<String> = match read(&problem, &matrices).ok()? {
        Ok(()) => BTreeSet::new(),
        Err(c) => c.into_iter().collect(),
    };
    Some((got.difference(&want).cloned().collect(), want.difference(&got).cloned().collect()))
}

/// Smallest sub-list of the edits which still shows the discrepancy on `code` (the key of a finding names the cause, not the company).
fn minimal_cause(base: usize, edits: &[&Edit], code: &str, spurious: bool) -> Vec<String> {
    let class = |n: &str| n.rsplit(':').next().unwrap_or(n).to_string();
    let shows = |sub: &[&Edit]| discrepancy(base, sub).is_some_and(|(s, m)| if spurious { s.contains(code) } else { m.contains(code) });
    if shows(&[]) {
        return vec!["base-document".into()];
    }
    for ed in edits {
        if shows(&[*ed]) {
            return vec![class(&ed.name)];
        }
    }
    if edits.len() > 2 {
        for i in 0..edits.len() {
            for j in i + 1..edits.len() {
                if shows(&[edits[i], edits[j]]) {
                    return vec![class(&edits[i].name), class(&edits[j].name)];
                }
            }
        }
    }
    edits.iter().map(|e| class(&e.name)).collect()
}

fn judge(base: usize, edits: &[&Edit], report: &mut Report) {
    let Some((problem, matrices)) = build(base, edits) else {
        report.add_count("edit_combinations_not_applicable", 1);
        return;
    };
    let names: Vec<&str> = edits.iter().map(|e| e.name.as_str()).collect();
    let exact = edits.iter().all(|e| e.exact);
    report.add_count("documents", 1);
    report.add_count("evaluations", 1);
    let scen = json!({"base": base, "edits": names});
    match read(&problem, &matrices) {
        Err(p) => {
            report.add_count("outcome_panic", 1);
            // the key names the site and the smallest part of the edits which still panics there
            // file and kind of the panic, without line numbers and values (an unrelated edit of that file must not rename the finding)
            let site_of = |msg: &str| -> String {
                let file = panic_site(msg).rsplit_once(':').map(|(f, _)| f.to_string()).unwrap_or_default();
                let text: String = msg.split(" @ ").next().unwrap_or("").chars().filter(|c| !c.is_ascii_digit()).take(40).collect();
                format!("{file}:{}", text.trim().replace(':', ""))
            };
            let site = site_of(&p);
            let panics_there = |sub: &[&Edit]| build(base, sub).is_some_and(|(pr, m)| read(&pr, &m).err().is_some_and(|e| site_of(&e) == site));
            let class = |n: &str| n.rsplit(':').next().unwrap_or(n).to_string();
            let cause: Vec<String> = if panics_there(&[]) {
                vec!["base-document".into()]
            } else if let Some(ed) = edits.iter().find(|ed| panics_there(&[**ed])) {
                vec![class(&ed.name)]
            } else {
                let mut pair = None;
                if edits.len() > 2 {
                    'outer: for i in 0..edits.len() {
                        for j in i + 1..edits.len() {
                            if panics_there(&[edits[i], edits[j]]) {
                                pair = Some(vec![class(&edits[i].name), class(&edits[j].name)]);
                                break 'outer;
                            }
                        }
                    }
                }
                let mut c: Vec<String> = pair.unwrap_or_else(|| edits.iter().map(|e| class(&e.name)).collect());
                c.sort();
                c
            };
            report.violation(Violation::new(format!("panic@{site}:{}", cause.join("+")), format!("edits {names:?}: {p}"), scen));
        }
        Ok(outcome) => {
            let got: BTreeSet<String> = match &outcome {
                Ok(()) => BTreeSet::new(),
                Err(c) => c.iter().cloned().collect(),
            };
            report.add_count(if outcome.is_ok() { "outcome_accepted" } else { "outcome_rejected" }, 1);
            for c in &got {
                report.add_count(&format!("code_reported_{c}"), 1);
            }
            for c in &got {
                if !DOCUMENTED.contains(&c.as_str()) {
                    report.violation(Violation::new(format!("undocumented-code:{c}"), format!("edits {names:?}"), scen.clone()));
                }
            }
            if outcome.is_err() && got.is_empty() {
                report.violation(Violation::new("rejected-without-code", format!("edits {names:?}"), scen.clone()));
            }
            if !exact {
                report.add_count("documents_totality_only", 1);
                return;
            }
            let Some(want) = model(&problem, &matrices) else {
                report.add_count("documents_undecided_by_the_documentation", 1);
                return;
            };
            report.add_count("documents_judged_exactly", 1);
            for c in &want {
                report.add_count(&format!("code_expected_{c}"), 1);
            }
            for c in got.difference(&want) {
                // E0002 (matrices cannot be matched with the profiles) is a generic error outside of the validation rules
                if c == "E0002" && !matrices.is_empty() {
                    report.add_count("e0002_not_judged", 1);
                    continue;
                }
                // E1203 on a relation of type `any`: one cause whatever made the job multi-place / multi-window
                let cause = if c == "E1203" { vec!["any-relation".to_string()] } else { minimal_cause(base, edits, c, true) };
                report.violation(Violation::new(
                    format!("spurious:{c}:{}", cause.join("+")),
                    format!("edits {names:?}: the reader reports {c}, the documented rule is not broken (reader {got:?}, rules {want:?})"),
                    scen.clone(),
                ));
            }
            for c in want.difference(&got) {
                let cause = minimal_cause(base, edits, c, false);
                report.violation(Violation::new(
                    format!("missing:{c}:{}{}", cause.join("+"), if got.is_empty() { ":accepted" } else { "" }),
                    format!("edits {names:?}: the documented rule {c} is broken, the reader says {got:?} (rules {want:?})"),
                    scen.clone(),
                ));
            }
        }
    }
}

fn combos(ctx: &RunCtx, n: usize) -> Vec<Vec<usize>> {
    let mut out: Vec<Vec<usize>> = vec![vec![]];
    out.extend((0..n).map(|i| vec![i]));
    for i in 0..n {
        for j in i + 1..n {
            out.push(vec![i, j]);
        }
    }
    if !ctx.tier.is_quick() {
        // every triple of edits
        let idx: Vec<usize> = (0..n).collect();
        for a in 0..idx.len() {
            for b in a + 1..idx.len() {
                for c in b + 1..idx.len() {
                    out.push(vec![idx[a], idx[b], idx[c]]);
                }
            }
        }
    }
    out
}

pub fn worker(ctx: &RunCtx, shard: usize, of: usize, _extra: &Extra) -> Report {
    let mut report = Report::new("exploration");
    for base in 0..2 {
        let (problem, matrices) = if base == 0 { base_coordinates() } else { base_indices() };
        let cat = catalogue(base, &json!({"problem": problem, "matrices": matrices}));
        for (k, combo) in combos(ctx, cat.len()).iter().enumerate() {
            if k % of != shard {
                continue;
            }
            let edits: Vec<&Edit> = combo.iter().map(|i| &cat[*i]).collect();
            judge(base, &edits, &mut report);
        }
    }
    report
}

pub fn run(ctx: &RunCtx) -> Report {
    let mut report = run_sharded_report(ctx, "exploration", ctx.threads * 2, &[]);
    let mut sizes = vec![];
    for base in 0..2 {
        let (problem, matrices) = if base == 0 { base_coordinates() } else { base_indices() };
        sizes.push(catalogue(base, &json!({"problem": problem, "matrices": matrices})).len());
    }
    report.set("edit_catalogue_sizes", json!(sizes));
    report.set("distinct_nontrivial", report.get_count("documents"));
    report.set("exhaustive", true);
    // every documented code has to be reached: reported by the reader at least once
    let never: Vec<&str> = DOCUMENTED.iter().copied().filter(|c| c.starts_with("E1") && report.get_count(&format!("code_reported_{c}")) == 0).collect();
    report.set("documented_codes_never_reported", json!(never));
    let never_expected: Vec<&str> = DOCUMENTED.iter().copied().filter(|c| c.starts_with("E1") && report.get_count(&format!("code_expected_{c}")) == 0).collect();
    report.set("documented_codes_never_expected_by_the_model", json!(never_expected));
    if report.get_count("documents_judged_exactly") == 0 || report.get_count("outcome_rejected") == 0 || report.get_count("outcome_accepted") == 0 {
        report.error("vacuous: no document judged exactly / nothing accepted / nothing rejected");
    }
    report.set(
        "rule",
        "2 valid base documents (coordinates, no matrix / indices + matrix + objectives + resources + two shifts) x every single edit and every pair of edits of \
         the catalogue (thorough: + every triple of edits); each document read by the real reader under catch_unwind; never a panic, only documented \
         codes; documents made of 'exact' edits only: accepted <=> the rule model written from the error index finds nothing, reported codes == model codes",
    );
    report.assume("the rule model declines (undecided) where the documentation is silent: equal start/end, touching windows, partially overlapping break/reload vs shift, open shifts next to others, nested objectives, value/order rules without objectives, matrices bigger than the locations used");
    report
}

pub fn replay(_ctx: &RunCtx, scenario: &Value) -> Result<Vec<Violation>, String> {
    let base = scenario["base"].as_u64().ok_or("base")? as usize;
    let (problem, matrices) = if base == 0 { base_coordinates() } else { base_indices() };
    let cat = catalogue(base, &json!({"problem": problem, "matrices": matrices}));
    let names: Vec<&str> = scenario["edits"].as_array().ok_or("edits")?.iter().filter_map(|x| x.as_str()).collect();
    let edits: Vec<&Edit> = names.iter().filter_map(|n| cat.iter().find(|e| e.name == *n)).collect();
    if edits.len() != names.len() {
        return Err("edit not in the catalogue".into());
    }
    let mut report = Report::new("exploration");
    judge(base, &edits, &mut report);
    Ok(report.violations)
}
