//! C18 — adaptive operator selection and termination math stay numerically sane.
//!
//! Exhaustive reward sequences on the real `SlotMachine` (recording sampler + real sampler), every small value vector for
//! `random_argmax`/`weighted`, every (initial, best-known, new) fitness triple through the real `DynamicSelective` with
//! scripted operators under the virtual clock, every small generation/fitness history through the terminations.

use crate::env::*;
use crate::stubs::*;
use crate::*;
use rosomaxa::algorithms::rl::{SlotAction, SlotFeedback, SlotMachine};
use rosomaxa::hyper::{DynamicSelective, HeuristicSearchOperator, HyperHeuristic};
use rosomaxa::population::SelectionPhase;
use rosomaxa::prelude::*;
use rosomaxa::termination::*;
use rosomaxa::utils::{DefaultDistributionSampler, DistributionSampler, random_argmax};
use serde_json::{Value, json};
use std::sync::{Arc, Mutex};

// ---------------------------------------------------------------------------------------------
// A. slot machine

#[derive(Clone)]
struct NoAction;
struct Fb(f64);
impl SlotFeedback for Fb {
    fn reward(&self) -> Float {
        self.0
    }
}
impl SlotAction for NoAction {
    type Context = ();
    type Feedback = Fb;
    fn take(&self, _: ()) -> Fb {
        Fb(0.)
    }
}

#[derive(Clone)]
struct RecSampler {
    log: Arc<Mutex<Vec<(u8, f64, f64)>>>,
    gamma_mode: u8,
}

impl DistributionSampler for RecSampler {
    fn gamma(&self, shape: Float, scale: Float) -> Float {
        self.log.lock().unwrap().push((0, shape, scale));
        match self.gamma_mode {
            0 => shape * scale,         // the mean
            1 => 0.,                    // exact zero (guarded by the library)
            _ => shape * scale * 1e-12, // far left tail
        }
    }
    fn normal(&self, mean: Float, std_dev: Float) -> Float {
        self.log.lock().unwrap().push((1, mean, std_dev));
        mean
    }
}

const REWARDS: [f64; 9] = [0., 5e-324, 1e-9, 0.5, 1., 6., 18., 1e3, 1e6];

fn check_machine<S: DistributionSampler + Clone>(
    m: &SlotMachine<NoAction, S>,
    prior: f64,
    seq: &[f64],
    rec: Option<&RecSampler>,
) -> Vec<(String, String)> {
    let mut errs = vec![];
    let (alpha, beta, mu, v, n) = m.get_params();
    if !(alpha > 0. && alpha.is_finite()) {
        errs.push(("slot:alpha".into(), format!("alpha={alpha}")));
    }
    if !(beta > 0. && beta.is_finite()) {
        errs.push(("slot:beta".into(), format!("beta={beta}")));
    }
    if !(v >= 0. && v.is_finite()) {
        errs.push(("slot:variance".into(), format!("v={v}")));
    }
    if n != seq.len() {
        errs.push(("slot:count".into(), format!("n={n} after {} updates", seq.len())));
    }
    let (lo, hi) = if seq.is_empty() {
        (prior, prior)
    } else {
        seq.iter().fold((f64::MAX, f64::MIN), |(lo, hi), r| (lo.min(*r), hi.max(*r)))
    };
    // running mean in floating point: allow a few ulps of the largest magnitude involved
    let tol = 8. * f64::EPSILON * hi.abs().max(lo.abs()).max(prior.abs());
    if !(mu.is_finite() && mu >= lo - tol && mu <= hi + tol) {
        errs.push(("slot:mean-outside-hull".into(), format!("mu={mu} not in [{lo}, {hi}]")));
    }
    // the exact mean is known: compare with it as well (catches wrong update formulas which stay inside the hull)
    if !seq.is_empty() {
        let exact = seq.iter().sum::<f64>() / seq.len() as f64;
        // the first update computes prior + (r - prior): its rounding error scales with the prior
        let tol = 64. * f64::EPSILON * hi.abs().max(prior.abs()).max(1e-300) * seq.len() as f64;
        if (mu - exact).abs() > tol {
            errs.push(("slot:mean-not-running-mean".into(), format!("mu={mu}, mean of rewards={exact}")));
        }
    }
    match catch(|| m.sample()) {
        Ok(s) => {
            if !s.is_finite() {
                errs.push(("slot:sample-not-finite".into(), format!("sample={s}")));
            }
        }
        Err(p) => errs.push((format!("slot:sample-panic@{}", panic_site(&p)), p)),
    }
    if let Some(rec) = rec {
        let mut log = rec.log.lock().unwrap();
        for (kind, a, b) in log.drain(..) {
            if kind == 0 && !(a > 0. && a.is_finite() && b > 0. && b.is_finite()) {
                errs.push(("slot:gamma-arguments".into(), format!("gamma(shape={a}, scale={b})")));
            }
            if kind == 1 && !(a.is_finite() && b >= 0. && b.is_finite()) {
                errs.push(("slot:normal-arguments".into(), format!("normal(mean={a}, std={b})")));
            }
        }
    }
    errs
}

fn slot_dfs<S: DistributionSampler + Clone>(
    m: &SlotMachine<NoAction, S>,
    prior: f64,
    seq: &mut Vec<f64>,
    depth: usize,
    rec: Option<&RecSampler>,
    label: &str,
    report: &mut Report,
) {
    report.add_count("slot_prefixes", 1);
    report.add_count("evaluations", 1);
    for (key, what) in check_machine(m, prior, seq, rec) {
        report.violation(Violation::new(key, what, json!({"part": "slot", "prior": prior, "rewards": seq.iter().map(|r| format!("{r:e}")).collect::<Vec<_>>(), "sampler": label})));
    }
    if seq.len() >= depth {
        return;
    }
    for r in REWARDS {
        let mut next = m.clone();
        if let Err(p) = catch(|| next.update(&Fb(r))) {
            report.violation(Violation::new(format!("slot:update-panic@{}", panic_site(&p)), p, json!({"part": "slot", "prior": prior, "rewards": format!("{seq:?}+{r}")})));
            continue;
        }
        seq.push(r);
        slot_dfs(&next, prior, seq, depth, rec, label, report);
        seq.pop();
    }
}

fn run_slot(ctx: &RunCtx, report: &mut Report) {
    let depth = ctx.tier.pick(5, 7);
    let jobs: Vec<(f64, u8, f64)> = [0., 1.].iter().flat_map(|p| (0..4u8).flat_map(move |mode| REWARDS.iter().map(move |r| (*p, mode, *r)))).collect();
    let parts = par_map(ctx.threads, jobs.len(), |i| {
        let (prior, mode, first) = jobs[i];
        let mut r = Report::new("exploration");
        let mut seq = vec![first];
        if mode < 3 {
            let rec = RecSampler { log: Default::default(), gamma_mode: mode };
            let mut m = SlotMachine::new(prior, NoAction, rec.clone());
            if first == REWARDS[0] {
                // also the empty prefix (once per prior/mode)
                for (key, what) in check_machine(&m, prior, &[], Some(&rec)) {
                    r.violation(Violation::new(key, what, json!({"part": "slot", "prior": prior, "rewards": []})));
                }
            }
            m.update(&Fb(first));
            slot_dfs(&m, prior, &mut seq, depth, Some(&rec), &format!("recording/{mode}"), &mut r);
        } else {
            reseed(i as u64);
            let sampler = DefaultDistributionSampler::new(Arc::new(DefaultRandom::new_repeatable()));
            let mut m = SlotMachine::new(prior, NoAction, sampler);
            m.update(&Fb(first));
            slot_dfs(&m, prior, &mut seq, depth, None, "real", &mut r);
        }
        r
    });
    for p in parts {
        report.merge(p);
    }
    report.sample(json!({"slot_rewards": ["1e6", "5e-324", "0", "18"], "prior": 1}));
}

// ---------------------------------------------------------------------------------------------
// B. argmax / weighted

fn run_selection(ctx: &RunCtx, report: &mut Report) {
    let random = DefaultRandom::new_repeatable();
    let streams = ctx.tier.pick(8, 32);
    let values = [0., 1., 2., f64::INFINITY, -1.];
    for len in 0..=4usize {
        product(&vec![values.len(); len], |idx| {
            let v: Vec<f64> = idx.iter().map(|i| values[*i]).collect();
            for stream in 0..streams {
                reseed(stream);
                report.add_count("argmax_runs", 1);
                report.add_count("evaluations", 1);
                let r = catch(|| random_argmax(v.iter().copied(), &random));
                let scen = json!({"part": "argmax", "values": v.iter().map(|x| format!("{x}")).collect::<Vec<_>>(), "stream": stream});
                match r {
                    Ok(None) if v.is_empty() => {}
                    Ok(Some(i)) if i < v.len() => {
                        let max = v.iter().cloned().fold(f64::NEG_INFINITY, f64::max);
                        if v[i] != max {
                            report.violation(Violation::new("argmax:not-maximal", format!("picked index {i} of {v:?}"), scen));
                        }
                    }
                    Ok(other) => report.violation(Violation::new("argmax:invalid-index", format!("{other:?} for {v:?}"), scen)),
                    Err(p) => report.violation(Violation::new(format!("argmax:panic@{}", panic_site(&p)), p, scen)),
                }
            }
        });
    }
    let weights = [0usize, 1, 5];
    for len in 1..=4usize {
        product(&vec![weights.len(); len], |idx| {
            let w: Vec<usize> = idx.iter().map(|i| weights[*i]).collect();
            for stream in 0..streams {
                reseed(stream);
                report.add_count("weighted_runs", 1);
                report.add_count("evaluations", 1);
                let scen = json!({"part": "weighted", "weights": w, "stream": stream});
                match catch(|| random.weighted(&w)) {
                    Ok(i) => {
                        let any_positive = w.iter().any(|x| *x > 0);
                        if i >= w.len() || (any_positive && w[i] == 0) {
                            report.violation(Violation::new("weighted:invalid-pick", format!("picked {i} of {w:?}"), scen));
                        }
                    }
                    Err(p) => report.violation(Violation::new(format!("weighted:panic@{}", panic_site(&p)), p, scen)),
                }
            }
        });
    }
    report.assume("random_argmax / weighted draw from the raw RNG: explored over a finite set of streams (sampled channel N2)");
}

// ---------------------------------------------------------------------------------------------
// C. DynamicSelective rewards

struct ScriptedOp {
    result: Vec<f64>,
}

impl HeuristicSearchOperator for ScriptedOp {
    type Context = StubCtx;
    type Objective = VObj;
    type Solution = VSol;
    fn search(&self, _: &StubCtx, _: &VSol) -> VSol {
        VSol { fit: self.result.clone() }
    }
}

fn parse_rewards(display: &str) -> Vec<(String, f64)> {
    let mut out = vec![];
    let mut in_search = false;
    for line in display.lines() {
        if line.starts_with("name,generation,reward") {
            in_search = true;
            continue;
        }
        if line.starts_with("heuristic:") {
            in_search = false;
        }
        if in_search {
            let cols: Vec<&str> = line.split(',').collect();
            if cols.len() >= 6 {
                out.push((cols[0].to_string(), cols[2].parse::<f64>().unwrap_or(f64::NAN)));
            }
        }
    }
    out
}

fn parse_params(display: &str) -> Vec<Vec<f64>> {
    let mut out = vec![];
    let mut in_h = false;
    for line in display.lines() {
        if line.starts_with("generation,state,name,alpha") {
            in_h = true;
            continue;
        }
        if in_h {
            let cols: Vec<&str> = line.split(',').collect();
            if cols.len() >= 8 {
                out.push(cols[3..8].iter().map(|c| c.parse::<f64>().unwrap_or(f64::NAN)).collect());
            }
        }
    }
    out
}

fn check_dynamic(initial: &[f64], best: &[f64], new: &[f64], ratio: f64, tick_us: u64, stream: u64) -> Vec<(String, String)> {
    let mut errs = vec![];
    reseed(stream);
    let environment = Arc::new(Environment::new(
        Arc::new(DefaultRandom::new_repeatable()),
        None,
        rosomaxa::utils::Parallelism::new_with_cpus(1),
        Arc::new(|_| {}),
        true,
    ));
    install_policy(PlanPolicy::Sequential);
    rosomaxa::utils::verif_clock::enable(tick_us);
    let r = catch(|| {
        let mut ctx = StubCtx::new(environment.clone());
        ctx.ranked = vec![VSol { fit: best.to_vec() }];
        ctx.statistics.improvement_1000_ratio = ratio;
        let ops: Vec<(Arc<dyn HeuristicSearchOperator<Context = StubCtx, Objective = VObj, Solution = VSol> + Send + Sync>, String, Float)> = vec![
            (Arc::new(ScriptedOp { result: new.to_vec() }), "a".to_string(), 1.),
            (Arc::new(ScriptedOp { result: new.to_vec() }), "b".to_string(), 1.),
        ];
        let mut heuristic = DynamicSelective::new(ops, vec![], environment.as_ref());
        let start = VSol { fit: initial.to_vec() };
        let mut results = vec![];
        for g in 0..4 {
            ctx.statistics.generation = g;
            results.extend(heuristic.search(&ctx, &start));
            let batch = heuristic.search_many(&ctx, vec![&start, &start]);
            results.extend(batch);
        }
        (format!("{heuristic}"), results.len())
    });
    rosomaxa::utils::verif_clock::disable();
    uninstall_plan();
    match r {
        Err(p) => errs.push((format!("dynamic:panic@{}", panic_site(&p)), p)),
        Ok((display, n)) => {
            if n != 12 {
                errs.push(("dynamic:result-count".into(), format!("{n} solutions returned for 12 searches")));
            }
            let rewards = parse_rewards(&display);
            if rewards.len() != 12 {
                errs.push(("dynamic:telemetry".into(), format!("{} reward samples for 12 searches", rewards.len())));
            }
            for (name, reward) in rewards {
                if name != "a" && name != "b" {
                    errs.push(("dynamic:unknown-operator".into(), format!("operator '{name}' was not configured")));
                }
                if !reward.is_finite() {
                    errs.push(("dynamic:reward-not-finite".into(), format!("reward {reward}")));
                } else if !(0. ..=18.).contains(&reward) {
                    errs.push(("dynamic:reward-out-of-range".into(), format!("reward {reward} outside of the documented [0,6] x (0.5,3] range")));
                    // the range the code can actually reach with N objectives (priority amplifier N, relative change <= 2):
                    // ((2N+1) + (2N+1)*2) * 3; anything above that is a different defect than the stale documentation
                    let n = initial.len() as f64;
                    if reward > (2. * n + 1.) * 3. * 3. + 1e-9 {
                        errs.push(("dynamic:reward-above-amplified-bound".into(), format!("reward {reward} with {n} objectives")));
                    }
                }
            }
            for p in parse_params(&display) {
                let (alpha, beta, mu, v) = (p[0], p[1], p[2], p[3]);
                if !(alpha > 0. && alpha.is_finite() && beta > 0. && beta.is_finite() && mu.is_finite() && v >= 0. && v.is_finite()) {
                    errs.push(("dynamic:slot-params".into(), format!("alpha={alpha} beta={beta} mu={mu} v={v}")));
                }
            }
        }
    }
    errs
}

fn run_dynamic(ctx: &RunCtx, report: &mut Report) {
    // incl. subnormal values: a reciprocal of them is not finite
    let scalars: Vec<f64> = vec![-1e308, -1., -0.0, 0., 3e-320, 1e-310, 4e-310, 1e-300, 0.5, 1., 2., 1e308];
    let ratios = [0., 0.1, 0.2];
    let ticks = [100u64, 1000, 7000];
    // single objective: every triple
    let mut cases: Vec<(Vec<f64>, Vec<f64>, Vec<f64>)> = vec![];
    product(&[scalars.len(); 3], |i| cases.push((vec![scalars[i[0]]], vec![scalars[i[1]]], vec![scalars[i[2]]])));
    // two objectives: the deciding component is the first or the second one
    let pairs: Vec<Vec<f64>> = {
        let small = [-1., 0., 1., 2.];
        let mut p = vec![];
        product(&[small.len(); 2], |i| p.push(vec![small[i[0]], small[i[1]]]));
        p
    };
    let stride = ctx.tier.pick(3, 1);
    let mut k = 0;
    product(&[pairs.len(); 3], |i| {
        k += 1;
        if k % stride == 0 {
            cases.push((pairs[i[0]].clone(), pairs[i[1]].clone(), pairs[i[2]].clone()));
        }
    });
    let parts = par_map(ctx.threads, cases.len(), |ci| {
        let (initial, best, new) = &cases[ci];
        let mut r = Report::new("exploration");
        for (ri, ratio) in ratios.iter().enumerate() {
            let tick = ticks[(ci + ri) % ticks.len()];
            r.add_count("dynamic_runs", 1);
            r.add_count("evaluations", 1);
            for (key, what) in check_dynamic(initial, best, new, *ratio, tick, ci as u64 % 4) {
                // key the finding by the sign pattern which causes it, so a different cause is a different finding
                let opposite = |a: &[f64], b: &[f64]| a.iter().zip(b.iter()).any(|(x, y)| x * y < 0.);
                let class = if initial.len() > 1 {
                    "multi-objective"
                } else if opposite(new, initial) || opposite(new, best) {
                    "opposite-sign"
                } else {
                    "same-sign"
                };
                let huge = [initial, best, new].iter().any(|v| v.iter().any(|x| x.abs() > 1e300));
                r.violation(Violation::new(
                    format!("{key}:{class}{}", if huge { ":huge" } else { "" }),
                    what,
                    json!({"part": "dynamic", "initial": fmt(initial), "best": fmt(best), "new": fmt(new), "ratio": ratio, "tick_us": tick, "stream": ci % 4}),
                ));
            }
        }
        if ci % 157 == 0 {
            r.sample(json!({"dynamic": {"initial": fmt(initial), "best": fmt(best), "new": fmt(new)}}));
        }
        r
    });
    for p in parts {
        report.merge(p);
    }
}

fn fmt(v: &[f64]) -> Vec<String> {
    v.iter().map(|x| format!("{x:e}")).collect()
}

fn unfmt(v: &Value) -> Vec<f64> {
    v.as_array().map(|a| a.iter().filter_map(|x| x.as_str().and_then(|s| s.parse().ok())).collect()).unwrap_or_default()
}

// ---------------------------------------------------------------------------------------------
// D. terminations

fn cv_reference(values: &[f64]) -> Option<f64> {
    let n = values.len() as f64;
    let mean = values.iter().sum::<f64>() / n;
    if mean == 0. {
        return None; // CV undefined: left to the implementation
    }
    let var = values.iter().map(|v| (v - mean) * (v - mean)).sum::<f64>() / n;
    Some(var.sqrt() / mean)
}

fn run_terminations(ctx: &RunCtx, report: &mut Report) {
    let environment = Arc::new(Environment::new(
        Arc::new(DefaultRandom::new_repeatable()),
        None,
        rosomaxa::utils::Parallelism::new_with_cpus(1),
        Arc::new(|_| {}),
        false,
    ));
    let in_unit = |x: f64| (0. ..=1.).contains(&x);
    // MaxGeneration
    for limit in 0..=4usize {
        let t = MaxGeneration::<StubCtx, VObj, VSol>::new(limit);
        for g in 0..=6usize {
            report.add_count("termination_cases", 1);
            report.add_count("evaluations", 1);
            let mut c = StubCtx::new(environment.clone());
            c.statistics.generation = g;
            let (fired, est) = (t.is_termination(&mut c), t.estimate(&c));
            let scen = json!({"part": "max-generation", "limit": limit, "generation": g});
            if fired != (g >= limit) {
                report.violation(Violation::new("termination:max-generation", format!("fired={fired} at generation {g} with limit {limit}"), scen.clone()));
            }
            if !in_unit(est) {
                report.violation(Violation::new("termination:estimate-range", format!("MaxGeneration estimate {est}"), scen.clone()));
            }
            if limit > 0 && (est - (g as f64 / limit as f64).min(1.)).abs() > 1e-12 {
                report.violation(Violation::new("termination:estimate-value", format!("MaxGeneration estimate {est} at {g}/{limit}"), scen));
            }
        }
    }
    // MaxTime under the virtual clock: tick 1 ms per read
    for limit_ms in [1u64, 2, 5, 10] {
        rosomaxa::utils::verif_clock::enable(1000);
        let t = MaxTime::<StubCtx, VObj, VSol>::new(limit_ms as f64 / 1000.);
        let mut c = StubCtx::new(environment.clone());
        // the timer was started at read #1 (t=1ms); read #k happens at t=k ms => elapsed = (k-1) ms
        for k in 2..=14u64 {
            report.add_count("termination_cases", 1);
            report.add_count("evaluations", 1);
            let fired = t.is_termination(&mut c);
            let elapsed_ms = rosomaxa::utils::verif_clock::reads() - 1;
            let scen = json!({"part": "max-time", "limit_ms": limit_ms, "read": k});
            if fired != (elapsed_ms > limit_ms) {
                report.violation(Violation::new("termination:max-time", format!("fired={fired} at elapsed {elapsed_ms} ms with limit {limit_ms} ms"), scen.clone()));
            }
            let est = t.estimate(&c);
            if !in_unit(est) {
                report.violation(Violation::new("termination:estimate-range", format!("MaxTime estimate {est}"), scen));
            }
        }
        rosomaxa::utils::verif_clock::disable();
    }
    // TargetProximity
    for target in [vec![0.], vec![1.], vec![1., 2.]] {
        for threshold in [0.1, 0.5] {
            for best in [vec![0., 0.], vec![1., 2.], vec![1.05, 2.], vec![2., 4.], vec![1e308, -1e308]] {
                report.add_count("termination_cases", 1);
                report.add_count("evaluations", 1);
                let t = TargetProximity::<StubCtx, VObj, VSol>::new(target.clone(), threshold);
                let mut c = StubCtx::new(environment.clone());
                c.ranked = vec![VSol { fit: best.clone() }];
                let scen = json!({"part": "target-proximity", "target": target, "threshold": threshold, "best": fmt(&best)});
                match catch(|| (t.is_termination(&mut c), t.estimate(&c))) {
                    Ok((fired, est)) => {
                        let d: f64 = target
                            .iter()
                            .zip(best.iter())
                            .map(|(a, b)| {
                                let m = a.abs().max(b.abs());
                                if m == 0. { 0. } else { ((a - b).abs() / m).powi(2) }
                            })
                            .sum::<f64>()
                            .sqrt();
                        if d.is_finite() && (d - threshold).abs() > 1e-9 && fired != (d < threshold) {
                            report.violation(Violation::new("termination:target-proximity", format!("fired={fired}, distance {d}, threshold {threshold}"), scen.clone()));
                        }
                        if !in_unit(est) {
                            report.violation(Violation::new("termination:estimate-range", format!("TargetProximity estimate {est}"), scen));
                        }
                    }
                    Err(p) => report.violation(Violation::new(format!("termination:panic@{}", panic_site(&p)), p, scen)),
                }
            }
        }
    }
    // MinVariation, sample mode: every fitness history
    let alphabet = [0., 1., 2., 3.];
    let max_len = ctx.tier.pick(5, 6);
    for window in 1..=3usize {
        for threshold in [0.1, 0.3, 0.5] {
            for dims in 1..=2usize {
                let symbols: Vec<Vec<f64>> = if dims == 1 {
                    alphabet.iter().map(|a| vec![*a]).collect()
                } else {
                    let mut s = vec![];
                    product(&[3, 3], |i| s.push(vec![alphabet[i[0]] + 1., alphabet[i[1]]]));
                    s
                };
                for len in 1..=(if dims == 1 { max_len } else { max_len - 2 }) {
                  // variants: (scale of the fitness values, global mode or the phase pattern of a non-global criterion)
                  let mut variants: Vec<(f64, Option<u32>)> = vec![(1., None), (1e-18, None), (1e12, None)];
                  if dims == 1 && len <= 5 {
                      for pattern in 0..(1u32 << len) {
                          variants.push((1., Some(pattern)));
                      }
                  }
                  for (scale, phases) in variants {
                    product(&vec![symbols.len(); len], |idx| {
                        report.add_count("termination_cases", 1);
                        report.add_count("min_variation_histories", 1);
                        report.add_count("evaluations", 1);
                        let history: Vec<Vec<f64>> = idx.iter().map(|i| symbols[*i].iter().map(|x| x * scale).collect()).collect();
                        let t = MinVariation::<StubCtx, VObj, VSol, i32>::new_with_sample(window, threshold, phases.is_none(), 7);
                        let mut c = StubCtx::new(environment.clone());
                        for (g, fit) in history.iter().enumerate() {
                            c.statistics.generation = g;
                            c.ranked = vec![VSol { fit: fit.clone() }];
                            let exploiting = phases.is_none_or(|p| p >> g & 1 == 1);
                            c.phase = if exploiting { SelectionPhase::Exploitation } else { SelectionPhase::Exploration };
                            let scen = json!({"part": "min-variation", "window": window, "threshold": threshold, "history": history, "generation": g,
                                              "scale": scale, "exploitation_pattern": phases});
                            let fired = match catch(|| t.is_termination(&mut c)) {
                                Ok(f) => f,
                                Err(p) => {
                                    report.violation(Violation::new(format!("termination:panic@{}", panic_site(&p)), p, scen));
                                    return;
                                }
                            };
                            let est = t.estimate(&c);
                            if !in_unit(est) {
                                report.violation(Violation::new("termination:estimate-range", format!("MinVariation estimate {est}"), scen.clone()));
                            }
                            // reference
                            let expected: Option<bool> = if g + 1 < window || !exploiting {
                                Some(false)
                            } else {
                                let win = &history[g + 1 - window..=g];
                                let mut all_below = Some(true);
                                for d in 0..dims {
                                    let vals: Vec<f64> = win.iter().map(|f| f[d]).collect();
                                    match cv_reference(&vals) {
                                        None => {
                                            all_below = None;
                                            break;
                                        }
                                        Some(cv) if (cv - threshold).abs() < 1e-12 => {
                                            all_below = None;
                                            break;
                                        }
                                        Some(cv) if cv > threshold => {
                                            all_below = Some(false);
                                            break;
                                        }
                                        _ => {}
                                    }
                                }
                                all_below
                            };
                            if let Some(e) = expected {
                                if e != fired {
                                    report.violation(Violation::new(
                                        "termination:min-variation",
                                        format!("fired={fired}, expected {e} at generation {g} (window {window}, threshold {threshold})"),
                                        scen,
                                    ));
                                    return;
                                }
                            }
                        }
                    });
                  }
                }
            }
        }
    }
    // composite: estimate is the maximum and stays in [0,1]
    for g in 0..=4usize {
        let t = CompositeTermination::<StubCtx, VObj, VSol>::new(vec![
            Box::new(MaxGeneration::<StubCtx, VObj, VSol>::new(4)),
            Box::new(MaxGeneration::<StubCtx, VObj, VSol>::new(2)),
            Box::new(TargetProximity::<StubCtx, VObj, VSol>::new(vec![0.], 0.1)),
        ]);
        let mut c = StubCtx::new(environment.clone());
        c.statistics.generation = g;
        c.ranked = vec![VSol { fit: vec![5.] }];
        report.add_count("termination_cases", 1);
        let (fired, est) = (t.is_termination(&mut c), t.estimate(&c));
        let scen = json!({"part": "composite", "generation": g});
        if fired != (g >= 2) || !in_unit(est) || (est - (g as f64 / 2.).min(1.)).abs() > 1e-12 {
            report.violation(Violation::new("termination:composite", format!("fired={fired} estimate={est} at generation {g}"), scen));
        }
    }
    report.sample(json!({"min_variation": {"window": 2, "threshold": 0.3, "history": [[1.0], [2.0], [2.0]]}}));
}

pub fn run(ctx: &RunCtx) -> Report {
    let mut report = Report::new("exploration");
    run_slot(ctx, &mut report);
    run_selection(ctx, &mut report);
    run_dynamic(ctx, &mut report);
    run_terminations(ctx, &mut report);
    let distinct = report.get_count("slot_prefixes") + report.get_count("dynamic_runs") + report.get_count("termination_cases");
    report.set("distinct_nontrivial", distinct);
    report.set("exhaustive", true);
    report.set(
        "rule",
        "slot machine: every reward sequence up to the depth bound over {0, 5e-324, 1e-9, 0.5, 1, 6, 18, 1e3, 1e6} x prior {0,1} x 3 recording sampler \
         modes + real sampler, invariants after every prefix; argmax/weighted: every vector of length <= 4 over small alphabets x RNG streams; \
         DynamicSelective: every (initial, best, new) fitness triple over 9 scalars (and a slice of 2-objective triples) x improvement ratio x clock tick; \
         terminations: every (generation, limit), every clock read, every fitness history of length <= 5/6 over {0,1,2,3} for windows 1-3; \
         distinct = enumerated prefixes/triples/histories",
    );
    report.assume("documented reward range: [0,6] base x (0.5,3] multiplier = [0,18]");
    report.assume("MinVariation: equality with the threshold and windows with zero mean are unspecified (not judged)");
    report
}

pub fn replay(_ctx: &RunCtx, scenario: &Value) -> Result<Vec<Violation>, String> {
    let mut out = vec![];
    match scenario["part"].as_str().unwrap_or("") {
        "dynamic" => {
            let errs = check_dynamic(
                &unfmt(&scenario["initial"]),
                &unfmt(&scenario["best"]),
                &unfmt(&scenario["new"]),
                scenario["ratio"].as_f64().unwrap_or(0.),
                scenario["tick_us"].as_u64().unwrap_or(1000),
                scenario["stream"].as_u64().unwrap_or(0),
            );
            for (key, what) in errs {
                out.push(Violation::new(key, what, scenario.clone()));
            }
        }
        _ => {
            let ctx = RunCtx { id: "C18".into(), tier: Tier::Quick, seed: 0, threads: 8 };
            let mut r = Report::new("exploration");
            run_slot(&ctx, &mut r);
            run_selection(&ctx, &mut r);
            run_terminations(&ctx, &mut r);
            out.extend(r.violations);
        }
    }
    Ok(out)
}
