//! One module per property + the replay protocol (DESIGN section 2).

use crate::{Report, RunCtx, Tier, Violation, out, run_worker};
use serde_json::{Value, json};
use std::collections::HashMap;

pub mod c01;
pub mod c04;
pub mod c06;
pub mod c07;
pub mod c08;
pub mod c08_solve;
pub mod c09;
pub mod c09_real;
pub mod c10;
pub mod c11;
pub mod c12;
pub mod c13;
pub mod c14;
pub mod c15;
pub mod c16;
pub mod c17;
pub mod c18;
pub mod c19;
pub mod c20;

pub type Extra = HashMap<String, String>;

pub struct Check {
    pub id: &'static str,
    pub run: fn(&RunCtx) -> Report,
    /// In-process replay of a single scenario.
    pub replay: fn(&RunCtx, &Value) -> Result<Vec<Violation>, String>,
    /// Shard worker (deterministic subprocess): returns the shard's report.
    pub worker: Option<fn(&RunCtx, usize, usize, &Extra) -> Report>,
}

pub fn registry() -> Vec<Check> {
    vec![
        Check { id: "C01", run: c01::run, replay: c01::replay, worker: Some(c01::worker) },
        Check { id: "C02", run: c01::run, replay: c01::replay, worker: Some(c01::worker) },
        Check { id: "C03", run: c01::run, replay: c01::replay, worker: Some(c01::worker) },
        Check { id: "C04", run: c04::run, replay: c04::replay, worker: Some(c04::worker) },
        Check { id: "C05", run: c04::run, replay: c04::replay, worker: Some(c04::worker) },
        Check { id: "C06", run: c06::run, replay: c06::replay, worker: None },
        Check { id: "C07", run: c07::run, replay: c07::replay, worker: Some(c07::worker) },
        Check { id: "C08", run: c08::run, replay: c08::replay, worker: None },
        Check { id: "C09", run: c09::run, replay: c09::replay, worker: None },
        Check { id: "C10", run: c10::run, replay: c10::replay, worker: Some(c10::worker) },
        Check { id: "C11", run: c11::run, replay: c11::replay, worker: Some(c11::worker) },
        Check { id: "C12", run: c12::run, replay: c12::replay, worker: Some(c12::worker) },
        Check { id: "C13", run: c13::run, replay: c13::replay, worker: None },
        Check { id: "C14", run: c14::run, replay: c14::replay, worker: None },
        Check { id: "C15", run: c15::run, replay: c15::replay, worker: Some(c15::worker) },
        Check { id: "C16", run: c16::run, replay: c16::replay, worker: None },
        Check { id: "C20", run: c20::run, replay: c20::replay, worker: None },
        Check { id: "C19", run: c19::run, replay: c19::replay, worker: None },
        Check { id: "C18", run: c18::run, replay: c18::replay, worker: None },
        Check { id: "C17", run: c17::run, replay: c17::replay, worker: Some(c17::worker) },
    ]
}

fn find(id: &str) -> Option<Check> {
    registry().into_iter().find(|c| c.id == id)
}

pub fn run(ctx: &RunCtx) -> Option<Report> {
    find(&ctx.id).map(|c| (c.run)(ctx))
}

/// Worker entry (deterministic subprocess): prints one JSON line (the report).
pub fn worker(ctx: &RunCtx, extra: &[(String, String)]) -> i32 {
    let Some(check) = find(&ctx.id) else {
        eprintln!("unknown check {}", ctx.id);
        return 2;
    };
    let extra: Extra = extra.iter().cloned().collect();
    // single-scenario mode used by the replay protocol
    if let Some(path) = extra.get("single") {
        let Some(scenario) = read_scenario(path) else { return 2 };
        let mut report = Report::new("replay");
        match (check.replay)(ctx, &scenario) {
            Ok(v) => report.violations = v,
            Err(e) => report.error(e),
        }
        crate::emit(&report.to_value());
        return 0;
    }
    let Some(worker) = check.worker else {
        eprintln!("check {} has no worker mode", ctx.id);
        return 2;
    };
    let shard: usize = extra.get("shard").and_then(|s| s.parse().ok()).unwrap_or(0);
    let of: usize = extra.get("of").and_then(|s| s.parse().ok()).unwrap_or(1);
    let report = worker(ctx, shard, of, &extra);
    crate::emit(&report.to_value());
    0
}

fn read_scenario(path: &str) -> Option<Value> {
    let text = std::fs::read_to_string(path).map_err(|_| eprintln!("cannot read {path}")).ok()?;
    let doc = serde_json::from_str::<Value>(&text).map_err(|_| eprintln!("cannot parse {path}")).ok()?;
    Some(doc.get("scenario").cloned().unwrap_or(Value::Null))
}

fn violations_digest(vs: &[Violation]) -> String {
    let mut keys: Vec<String> = vs.iter().map(|v| format!("{}|{}", v.key, v.what)).collect();
    keys.sort();
    keys.join("\n")
}

/// Replays a violation artefact: exit 1 when the violation reproduces, 0 when it does not, 2 on machinery error.
pub fn replay(ctx: &RunCtx, path: &str) -> i32 {
    let Some(check) = find(&ctx.id) else {
        eprintln!("unknown check {}", ctx.id);
        return 2;
    };
    let Ok(text) = std::fs::read_to_string(path) else {
        eprintln!("cannot read {path}");
        return 2;
    };
    let Ok(doc) = serde_json::from_str::<Value>(&text) else {
        eprintln!("cannot parse {path}");
        return 2;
    };
    let scenario = doc.get("scenario").cloned().unwrap_or(Value::Null);
    let wanted_key = doc.get("key").and_then(|k| k.as_str()).unwrap_or("").to_string();
    let tier = if doc.get("tier").and_then(|t| t.as_str()) == Some("thorough") { Tier::Thorough } else { ctx.tier };
    let ctx = &RunCtx { tier, ..ctx.clone() };

    let report_found = |vs: &[Violation], how: &str| {
        for v in vs {
            out!("VIOLATION property={} replay={}", ctx.id, path);
            out!("  key={} :: {} [{}]", v.key, crate::truncate(&v.what, 600), how);
        }
    };

    let Some(shard_info) = scenario.get("_shard").cloned() else {
        // pure, in-process scenario
        return match (check.replay)(ctx, &scenario) {
            Ok(v) if v.is_empty() => {
                out!("replay: no violation reproduced");
                0
            }
            Ok(v) => {
                report_found(&v, "in-process");
                1
            }
            Err(e) => {
                eprintln!("MACHINERY-ERROR replay: {e}");
                2
            }
        };
    };

    // 1. single-scenario attempts in fresh determinised processes
    let exe = std::env::current_exe().expect("no exe");
    let recorded_hs = shard_info.get("hash_seed").and_then(|h| h.as_u64()).unwrap_or(0);
    let run_single = |hs: u64| -> Option<Vec<Violation>> {
        let args: Vec<String> =
            vec!["worker".into(), ctx.id.clone(), "--tier".into(), ctx.tier.name().into(), "--seed".into(), ctx.seed.to_string(), "--single".into(), path.into()];
        let out = run_worker(&exe, &args, hs, 0);
        let r = out.lines.last().and_then(Report::from_value)?;
        if !r.errors.is_empty() {
            eprintln!("replay worker: {:?}", r.errors);
        }
        Some(r.violations)
    };
    let mut seeds = vec![recorded_hs];
    seeds.extend((0..16).filter(|s| *s != recorded_hs));
    for hs in seeds {
        let Some(vs) = run_single(hs) else { continue };
        let hit: Vec<Violation> = vs.into_iter().filter(|v| wanted_key.is_empty() || v.key == wanted_key).collect();
        if !hit.is_empty() {
            // the same schedule must fail every time: run again, identical observation required
            let again: Vec<Violation> =
                run_single(hs).unwrap_or_default().into_iter().filter(|v| wanted_key.is_empty() || v.key == wanted_key).collect();
            if violations_digest(&hit) != violations_digest(&again) {
                eprintln!("MACHINERY-ERROR replay diverged between two identical runs (hash seed {hs})");
                return 2;
            }
            report_found(&hit, &format!("single scenario, hash seed {hs}, reproduced twice"));
            return 1;
        }
    }

    // 2. whole-shard replay with the recorded seed
    let shard = shard_info.get("shard").and_then(|x| x.as_u64()).unwrap_or(0) as usize;
    let of = shard_info.get("of").and_then(|x| x.as_u64()).unwrap_or(1) as usize;
    let extra: Vec<String> = shard_info
        .get("extra")
        .and_then(|e| e.as_array())
        .map(|a| a.iter().filter_map(|x| x.as_str().map(|s| s.to_string())).collect())
        .unwrap_or_default();
    let run_shard = || -> Option<Vec<Violation>> {
        let mut args: Vec<String> = vec![
            "worker".into(),
            ctx.id.clone(),
            "--tier".into(),
            ctx.tier.name().into(),
            "--shard".into(),
            shard.to_string(),
            "--of".into(),
            of.to_string(),
            "--seed".into(),
            ctx.seed.to_string(),
        ];
        args.extend(extra.iter().cloned());
        let out = run_worker(&exe, &args, recorded_hs, shard);
        out.lines.last().and_then(Report::from_value).map(|r| r.violations)
    };
    let first: Vec<Violation> = run_shard().unwrap_or_default().into_iter().filter(|v| wanted_key.is_empty() || v.key == wanted_key).collect();
    if first.is_empty() {
        out!("replay: no violation reproduced (single-scenario attempts under 17 hash seeds and shard replay)");
        return 0;
    }
    let second: Vec<Violation> = run_shard().unwrap_or_default().into_iter().filter(|v| wanted_key.is_empty() || v.key == wanted_key).collect();
    if violations_digest(&first) != violations_digest(&second) {
        eprintln!("MACHINERY-ERROR shard replay diverged between two identical runs");
        return 2;
    }
    report_found(&first[..first.len().min(3)], &format!("shard {shard}/{of} replay, hash seed {recorded_hs}, reproduced twice"));
    let _ = json!(null);
    1
}
