//! One module per property.

use crate::{Report, RunCtx};
use serde_json::Value;

pub mod c14;

pub fn run(ctx: &RunCtx) -> Option<Report> {
    Some(match ctx.id.as_str() {
        "C14" => c14::run(ctx),
        _ => return None,
    })
}

/// Replays a violation artefact: exit 1 when the violation reproduces, 0 when it does not, 2 on machinery error.
pub fn replay(ctx: &RunCtx, path: &str) -> i32 {
    let Ok(text) = std::fs::read_to_string(path) else {
        eprintln!("cannot read {path}");
        return 2;
    };
    let Ok(doc) = serde_json::from_str::<Value>(&text) else {
        eprintln!("cannot parse {path}");
        return 2;
    };
    let scenario = doc.get("scenario").cloned().unwrap_or(Value::Null);
    let result = match ctx.id.as_str() {
        "C14" => c14::replay(ctx, &scenario),
        _ => {
            eprintln!("unknown check {}", ctx.id);
            return 2;
        }
    };
    match result {
        Ok(violations) if violations.is_empty() => {
            println!("replay: no violation reproduced");
            0
        }
        Ok(violations) => {
            for v in violations {
                println!("VIOLATION property={} replay={}", ctx.id, path);
                println!("  key={} :: {}", v.key, v.what);
            }
            1
        }
        Err(e) => {
            eprintln!("MACHINERY-ERROR replay: {e}");
            2
        }
    }
}

/// Worker entry (deterministic subprocess), prints JSON lines.
pub fn worker(ctx: &RunCtx, _extra: &[(String, String)]) -> i32 {
    match ctx.id.as_str() {
        _ => {
            eprintln!("check {} has no worker mode", ctx.id);
            2
        }
    }
}
