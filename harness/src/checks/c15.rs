//! C15 — parallel evaluation results do not depend on how work is split.
//!
//! (1) every split plan (composition x reduction tree x identity injections) of the parallel fold/reduce for every
//!     evaluation context with 2-6 (route, job) items: the chosen insertion's cost vector equals the minimum of an
//!     independent sequential scan and is the same under all plans;
//! (2) the same calls under real rayon pools of several sizes and layouts, repeated (sampled schedules, labelled so);
//! (3) full solves under pool layouts and plan policies, judged by the oracle;
//! (4) conformance: the segment/tree structure real rayon produces for fold+reduce is a member of the plan model.

use super::Extra;
use super::c04::World;
use crate::env::*;
use crate::prag::families::*;
use crate::prag::model::*;
use crate::prag::oracle::{self, OracleOptions};
use crate::prag::solve::*;
use crate::*;
use rosomaxa::HeuristicSolution;
use rosomaxa::utils::verif_plan::{Plan, Tree};
use rosomaxa::utils::{Parallelism, fold_reduce};
use serde_json::{Value, json};
use std::sync::Arc;
use std::sync::atomic::AtomicU64;
use vrp_core::construction::heuristics::*;
use vrp_core::models::problem::{Job, JobIdDimension};

fn slice(tier: Tier) -> Vec<(String, PProblem)> {
    let mut out = vec![];
    for (name, problems) in all_families(Tier::Quick) {
        if ["infeasible", "unreach"].contains(&name) {
            continue;
        }
        let per = match (name, tier) {
            ("core", Tier::Quick) => 12,
            ("core", _) => 400,
            (_, Tier::Quick) => 4,
            _ => 80,
        };
        let candidates: Vec<PProblem> = problems.into_iter().filter(|p| p.jobs.len() >= 3).collect();
        let step = (candidates.len() / per.max(1)).max(1);
        let picked: Vec<PProblem> = candidates.into_iter().step_by(step).take(per).collect();
        // goals without a job-count layer in front (cost only, tours first): the leading cost component of an insertion
        // is then positive (fixed cost of a new tour), which the pruning bound of the evaluator has to respect
        if name == "core" {
            for (oi, objectives) in [serde_json::json!([{"type": "minimize-cost"}]), serde_json::json!([{"type": "minimize-tours"}, {"type": "minimize-cost"}])].into_iter().enumerate() {
                for p in picked.iter() {
                    let mut q = p.clone();
                    q.name = format!("{}/goal{oi}", q.name);
                    q.objectives = Some(objectives.clone());
                    out.push(("core-goals".to_string(), q));
                }
            }
        }
        out.extend(picked.into_iter().map(|p| (name.to_string(), p)));
    }
    out.extend(family_combo(2).into_iter().filter(|p| p.clustering.is_none()).step_by(tier.pick(16, 1)).map(|p| ("combo".to_string(), p)));
    // vicinity clustering (built by parallel code before the search starts): full solves under every layout only
    out.extend(family_cluster_tw().into_iter().step_by(tier.pick(24, 4)).map(|p| ("cluster".to_string(), p)));
    out.extend(family_combo(2).into_iter().filter(|p| p.clustering.is_some()).step_by(tier.pick(6, 1)).map(|p| ("cluster".to_string(), p)));
    out
}

fn cost_vec(r: &InsertionResult) -> Option<Vec<f64>> {
    r.as_success().map(|s| s.cost.iter().collect())
}

fn job_id(job: &Job) -> String {
    job.dimens().get_job_id().cloned().unwrap_or_default()
}

/// Evaluation contexts: a root construction with k jobs taken out again (they become `required`).
fn contexts(world: &World) -> Vec<(String, InsertionContext)> {
    let mut out = vec![];
    // nothing assigned yet: every job against the empty tours of the fleet, in the given and in the reversed job order
    for reversed in [false, true] {
        let mut ctx = InsertionContext::new(world.core.clone(), world.env.clone());
        if reversed {
            ctx.solution.required.reverse();
        }
        out.push((format!("empty/{}", if reversed { "reversed" } else { "given" }), ctx));
    }
    for (root_name, root) in world.roots().into_iter().take(3) {
        let assigned: Vec<Job> = root.solution.routes.iter().flat_map(|r| r.route().tour.jobs().cloned().collect::<Vec<_>>()).collect();
        for k in 1..=3usize.min(assigned.len()) {
            for start in 0..assigned.len().min(3) {
                let mut ctx = root.deep_copy();
                let take: Vec<Job> = (0..k).map(|i| assigned[(start + i) % assigned.len()].clone()).collect();
                for job in &take {
                    for rc in ctx.solution.routes.iter_mut() {
                        if rc.route().tour.contains(job) {
                            rc.route_mut().tour.remove(job);
                        }
                    }
                    if !ctx.solution.required.contains(job) {
                        ctx.solution.required.push(job.clone());
                    }
                }
                if catch(|| ctx.restore()).is_err() {
                    continue;
                }
                // the shape an earlier recreate step leaves behind: one of the jobs to be evaluated carries a concrete
                // unassignment code (the evaluator skips it for unmodified tours - whatever the fold has found so far must survive)
                if k >= 2 {
                    for (which, job) in [("first", take.first()), ("last", take.last())] {
                        if let Some(job) = job {
                            let mut coded = ctx.deep_copy();
                            coded.solution.unassigned.insert(job.clone(), UnassignmentInfo::Simple(vrp_core::models::ViolationCode(1)));
                            out.push((format!("{root_name}/take{k}@{start}/coded-{which}"), coded));
                        }
                    }
                }
                out.push((format!("{root_name}/take{k}@{start}"), ctx));
            }
        }
    }
    out
}

fn plan_axis(family: &str, world: &World, report: &mut Report) {
    let selector = BestResultSelector::default();
    let legs = LegSelection::Exhaustive;
    let evaluator = PositionInsertionEvaluator::default();
    for (name, ctx) in contexts(world) {
        let jobs: Vec<&Job> = ctx.solution.required.iter().collect();
        let routes: Vec<&RouteContext> = ctx.solution.routes.iter().chain(ctx.solution.registry.next_route()).collect();
        let n = jobs.len() * routes.len();
        if !(2..=6).contains(&n) {
            continue;
        }
        // independent sequential scan: every pair with a fresh alternative, minimum by the cost order
        let goal = &ctx.problem.goal;
        let mut best: Option<Vec<f64>> = None;
        for route in &routes {
            for job in &jobs {
                let eval_ctx = EvaluationContext { goal, job, leg_selection: &legs, result_selector: &selector };
                let r = eval_job_insertion_in_route(&ctx, &eval_ctx, route, InsertionPosition::Any, InsertionResult::make_failure());
                if let Some(success) = r.as_success() {
                    let c: Vec<f64> = success.cost.iter().collect();
                    let better = best.as_ref().is_none_or(|b| InsertionCost::new(&c) < InsertionCost::new(b));
                    if better {
                        best = Some(c);
                    }
                }
            }
        }
        // the minimum over fresh evaluations is only a sound reference for single-task jobs (multi-task jobs are placed by
        // a greedy search whose result legitimately depends on the bound it is given)
        let only_singles = jobs.iter().all(|j| matches!(j, Job::Single(_)));
        // reference for plan independence: the library's own sequential scan
        rosomaxa::utils::verif_plan::install(Box::new(FixedPlanProvider { plan: Plan::sequential(n), used: Arc::new(AtomicU64::new(0)) }));
        world.random.reset(vec![], Fallback::Default);
        reseed(0);
        let seq_ref = catch(|| evaluator.evaluate_all(&ctx, &jobs, &routes, &legs, &selector)).ok().and_then(|r| cost_vec(&r));
        uninstall_plan();
        if only_singles && seq_ref != best {
            report.violation(Violation::new(
                format!("sequential-scan-not-minimal:{family}"),
                format!("sequential scan chooses {seq_ref:?}, the minimum over all (route, job) pairs is {best:?}"),
                json!({"axis": "plans", "family": family, "problem": world.problem.name, "context": name, "plan": "sequential"}),
            ));
        }
        let best = seq_ref;
        let scen = |plan: Value| json!({"axis": "plans", "family": family, "problem": world.problem.name, "context": name, "plan": plan});
        let mut outcomes = std::collections::HashSet::new();
        for plan in all_plans(n, true) {
            report.add_count("plans_executed", 1);
            report.add_count("transitions", 1);
            let used = Arc::new(AtomicU64::new(0));
            rosomaxa::utils::verif_plan::install(Box::new(FixedPlanProvider { plan: plan.clone(), used: used.clone() }));
            world.random.reset(vec![], Fallback::Default);
            reseed(0);
            let r = catch(|| evaluator.evaluate_all(&ctx, &jobs, &routes, &legs, &selector));
            uninstall_plan();
            let plan_json = json!({"segments": plan.segments, "tree": format!("{:?}", plan.tree)});
            match r {
                Ok(result) => {
                    let got = cost_vec(&result);
                    outcomes.insert(format!("{got:?}"));
                    if got != best {
                        report.violation(Violation::new(
                            format!("plan-dependent-cost:{family}{}", if only_singles { "" } else { ":multi-task-jobs" }),
                            format!("under plan {plan_json} the chosen insertion costs {got:?}, the sequential scan gives {best:?} (job {:?}{})", result.as_success().map(|s| job_id(&s.job)), if only_singles { "" } else { "; multi-task jobs involved" }),
                            scen(plan_json),
                        ));
                    }
                    if used.load(std::sync::atomic::Ordering::SeqCst) == 0 {
                        report.add_count("plans_not_consulted", 1);
                    }
                }
                Err(p) => report.violation(Violation::new(format!("plan-panic@{}", panic_site(&p)), p, scen(plan_json))),
            }
        }
        report.add_count("states", 1);
        report.add_count("evaluation_contexts", 1);
        if outcomes.len() > 1 {
            report.add_count("contexts_with_plan_dependent_outcome", 1);
        }

        // (2) real pools: sampled schedules (multi-task jobs sample their permutations from per-thread random sources
        // which a free-running pool does not let the harness pin: only single-task contexts are compared)
        for threads in [1usize, 2, 3, 4, 8, 16] {
            if !only_singles {
                break;
            }
            let pool = rosomaxa::utils::ThreadPool::new(threads);
            for _rep in 0..10 {
                report.add_count("real_pool_runs_sampled", 1);
                let r = catch(|| pool.execute(|| evaluator.evaluate_all(&ctx, &jobs, &routes, &legs, &selector)));
                match r {
                    Ok(result) => {
                        let got = cost_vec(&result);
                        if got != best {
                            report.violation(Violation::new(
                                format!("pool-dependent-cost:{family}{}", if only_singles { "" } else { ":multi-task-jobs" }),
                                format!("real pool of {threads} threads: chosen insertion costs {got:?}, the sequential scan gives {best:?}"),
                                json!({"axis": "pools", "family": family, "problem": world.problem.name, "context": name, "threads": threads}),
                            ));
                        }
                    }
                    Err(p) => report.violation(Violation::new(format!("pool-panic@{}", panic_site(&p)), p, json!({"axis": "pools", "family": family, "problem": world.problem.name, "context": name}))),
                }
            }
        }
    }
}

fn solve_axis(family: &str, problem: &PProblem, report: &mut Report) {
    let layouts: Vec<(Option<(usize, usize)>, Option<PlanPolicy>)> = vec![
        (Some((1, 1)), None),
        (Some((1, 2)), None),
        (Some((2, 1)), None),
        (Some((2, 2)), None),
        (Some((3, 2)), None),
        (Some((4, 4)), None),
        (None, Some(PlanPolicy::Reverse)),
        (None, Some(PlanPolicy::SingletonsLeft)),
        (None, Some(PlanPolicy::SingletonsRight)),
        (None, Some(PlanPolicy::Halves)),
        (Some((2, 2)), Some(PlanPolicy::Halves)),
    ];
    for (parallelism, plan) in layouts {
        report.add_count("layout_solves", 1);
        report.add_count("transitions", 1);
        // families with three and more tours and conditional jobs: long enough for the parallel decomposition to be used
        let generations = if ["fleet4", "mixed10", "line12"].contains(&family) { 60 } else { 3 };
        let cfg = SolveCfg { parallelism, plan, generations, seed: 5, ..SolveCfg::default() };
        let scen = json!({"axis": "solve", "family": family, "problem": problem.name, "cfg": cfg.to_json()});
        match solve(problem, &cfg, None, None) {
            Ok(solved) => {
                let mut seen = std::collections::HashSet::new();
                for f in oracle::check(problem, &solved.json, &OracleOptions { tol: oracle::tolerance(family, problem) }) {
                    if oracle::applies(&f, family, problem) && seen.insert(f.rule.clone()) {
                        report.violation(Violation::new(format!("layout:{}:{family}", f.rule), f.what, scen.clone()));
                    }
                }
            }
            Err(e) => report.violation(Violation::new(format!("layout:solve-error:{family}"), e, scen)),
        }
    }
}

/// (3b) every search operator applied once to every initial construction under every non-sequential split plan: the
/// outcome has to be a consistent, feasible solution (the invariants of C04) whatever way the parallel wrappers split
/// the work (route groups of the decomposition, routes of the tour re-sequencing, job x route pairs of the recreate).
fn operator_axis(family: &str, problem: &PProblem, report: &mut Report) {
    use super::c04;
    let Ok(world) = c04::World::new(family, problem) else { return };
    let roots = world.roots();
    let names: Vec<String> = c04::operators(&world.core, &world.env).into_iter().map(|(n, _)| n).collect();
    for (root_name, root) in roots.iter().step_by(2) {
        for plan in [PlanPolicy::Reverse, PlanPolicy::SingletonsLeft, PlanPolicy::SingletonsRight, PlanPolicy::Halves] {
            for (oi, name) in names.iter().enumerate() {
                report.add_count("operator_steps_under_plans", 1);
                report.add_count("transitions", 1);
                world.start(1);
                let ops = c04::operators(&world.core, &world.env);
                let rctx = world.refinement_ctx(root);
                install_policy(plan.clone());
                let next = catch(|| ops[oi].1.search(&rctx, root));
                uninstall_plan();
                let scen = json!({"axis": "operator", "family": family, "problem": problem.name, "root": root_name, "operator": name, "plan": format!("{plan:?}")});
                match next {
                    Ok(state) => {
                        let mut errs = c04::structural(&world, &state);
                        errs.extend(c04::feasibility(&world, &state));
                        let mut seen = std::collections::HashSet::new();
                        for (key, what) in errs {
                            // recorded defects of C01/C04 (unreachable legs, the break report) are theirs to report
                            if key.contains("unreachable-leg") || key.ends_with(":reported-before-arrival") {
                                continue;
                            }
                            if seen.insert(key.clone()) {
                                report.violation(Violation::new(format!("operator-under-plan:{key}:{family}:{}", name.split('+').next().unwrap_or("")), what, scen.clone()));
                            }
                        }
                    }
                    Err(p) => report.violation(Violation::new(format!("operator-under-plan:panic@{}:{family}", panic_site(&p)), p, scen)),
                }
            }
        }
    }
}

/// (4) conformance: structure of real rayon fold+reduce runs must be a member of the plan model.
#[derive(Clone, Debug)]
enum Acc {
    Identity,
    Seg(Vec<usize>),
    Node(Box<Acc>, Box<Acc>),
}

fn flatten(acc: &Acc, out: &mut Vec<Vec<usize>>) -> bool {
    // returns false when the structure is not order preserving / segments are not contiguous runs
    match acc {
        Acc::Identity => true,
        Acc::Seg(items) => {
            if items.windows(2).any(|w| w[1] != w[0] + 1) {
                return false;
            }
            out.push(items.clone());
            true
        }
        Acc::Node(l, r) => flatten(l, out) && flatten(r, out),
    }
}

fn conformance(report: &mut Report) {
    for threads in [1usize, 2, 3, 4, 8, 16] {
        let pool = rosomaxa::utils::ThreadPool::new(threads);
        for n in 1..=8usize {
            for _rep in 0..20 {
                report.add_count("traces_validated_against_impl", 1);
                let items: Vec<usize> = (0..n).collect();
                let acc = pool.execute(|| {
                    fold_reduce(
                        items.clone(),
                        || Acc::Identity,
                        |acc, item| match acc {
                            Acc::Identity => Acc::Seg(vec![item]),
                            Acc::Seg(mut v) => {
                                v.push(item);
                                Acc::Seg(v)
                            }
                            other => Acc::Node(Box::new(other), Box::new(Acc::Seg(vec![item]))),
                        },
                        |l, r| Acc::Node(Box::new(l), Box::new(r)),
                    )
                });
                let mut segments = vec![];
                let ok = flatten(&acc, &mut segments);
                let all: Vec<usize> = segments.iter().flatten().copied().collect();
                if !ok || all != (0..n).collect::<Vec<_>>() {
                    // the model is wrong, not the library: machinery error
                    report.error(format!("real rayon produced a fold/reduce structure outside of the plan model: {acc:?}"));
                }
            }
        }
    }
    let _ = (Plan::sequential(1), Tree::Identity);
}

pub fn worker(ctx: &RunCtx, shard: usize, of: usize, _extra: &Extra) -> Report {
    let mut report = Report::new("model_checking");
    for (idx, (family, problem)) in slice(ctx.tier).iter().enumerate() {
        if idx % of != shard {
            continue;
        }
        if family == "cluster" {
            solve_axis(family, problem, &mut report);
            continue;
        }
        match World::new(family, problem) {
            Ok(world) => plan_axis(family, &world, &mut report),
            Err(e) => report.error(format!("cannot read {}: {e}", problem.name)),
        }
        solve_axis(family, problem, &mut report);
        // operators under split plans: the families with conditional jobs, several tours, relations
        if ["fleet4", "cond", "rel", "pd", "combo"].contains(&family.as_str()) || ctx.tier != Tier::Quick {
            operator_axis(family, problem, &mut report);
        }
        if idx % 5 == 0 {
            report.sample(json!({"family": family, "problem": problem.name}));
        }
    }
    report
}

pub fn run(ctx: &RunCtx) -> Report {
    let n = slice(ctx.tier).len();
    let mut report = run_sharded_report(ctx, "model_checking", n, &[]);
    conformance(&mut report);
    if report.get_count("plans_executed") == 0 {
        report.error("vacuous: no plan was executed");
    }
    report.set("exhaustive", true);
    report.set(
        "rule",
        "for every evaluation context (root constructions of a slice of the families with 1-3 jobs taken out; 2-6 (route, job) items) EVERY split plan \
         (all compositions x all order-preserving reduction trees x identity injections at the ends: up to 188 x 4 plans) is executed through hook H1 and the \
         chosen cost vector is compared with an independent sequential minimum; states = evaluation contexts, transitions = plans executed + layout solves; \
         real pools of 1-16 threads are SAMPLED (10 repetitions each); full solves under 11 pool layouts / plan policies judged by the oracle; \
         traces_validated_against_impl = real rayon fold+reduce runs whose recorded structure is a member of the plan model",
    );
    report.assume("the plan model is rayon's documented fold/reduce contract (contiguous segments, order-preserving tree, identity as neutral operand), bound to real rayon by the conformance pass");
    report
}

pub fn replay(_ctx: &RunCtx, scenario: &Value) -> Result<Vec<Violation>, String> {
    let family = scenario["family"].as_str().ok_or("family")?;
    let name = scenario["problem"].as_str().ok_or("problem")?;
    let (family, problem) = slice(Tier::Thorough).into_iter().chain(slice(Tier::Quick)).find(|(f, p)| f == family && p.name == name).ok_or("problem not in slice")?;
    let mut report = Report::new("model_checking");
    if scenario["axis"] == "solve" {
        solve_axis(&family, &problem, &mut report);
    } else if scenario["axis"] == "operator" {
        operator_axis(&family, &problem, &mut report);
    } else {
        let world = World::new(&family, &problem)?;
        plan_axis(&family, &world, &mut report);
    }
    Ok(report.violations)
}
