//! C11 — problem and solution documents survive round trips.
//!
//! (a) every problem / matrix document of the families and of a feature catalogue, every solver solution document:
//!     text -> parse -> serialise -> parse -> serialise: the two serialisations are equal and nothing of the original is lost;
//! (b) every (problem, solver solution) pair: write -> read as initial solution -> same customer activities on the same
//!     vehicle shifts in the same order at the same places, same unassigned set;
//! (c) every small CSV job table x vehicle table: the imported problem is valid and carries exactly the tables' data.

use super::Extra;
use crate::prag::families::*;
use crate::prag::model::*;
use crate::prag::solve::*;
use crate::*;
use serde_json::{Map, Value, json};
use std::collections::{BTreeMap, HashSet};
use std::io::{BufReader, BufWriter};
use std::sync::Arc;
use vrp_core::models::problem::{JobIdDimension, VehicleIdDimension};
use vrp_core::models::{Problem as CoreProblem, Solution as CoreSolution};
use vrp_pragmatic::format::problem::{PragmaticProblem, deserialize_matrix, deserialize_problem, serialize_problem};
use vrp_pragmatic::format::solution::{deserialize_solution, read_init_solution, serialize_solution};

// ---------------------------------------------------------------------------------------------
// JSON comparison

/// Differences between two JSON trees: numbers numerically (1e-12 relative), null == absent.
fn diff(a: &Value, b: &Value, path: &str, out: &mut Vec<String>) {
    match (a, b) {
        (Value::Null, Value::Null) => {}
        (Value::Number(x), Value::Number(y)) => {
            let (x, y) = (x.as_f64().unwrap_or(f64::NAN), y.as_f64().unwrap_or(f64::NAN));
            if !(x == y || (x - y).abs() <= 1e-12 * x.abs().max(y.abs())) {
                out.push(format!("{path}: {x} vs {y}"));
            }
        }
        (Value::Object(x), Value::Object(y)) => {
            let keys: HashSet<&String> = x.keys().chain(y.keys()).collect();
            for k in keys {
                let (va, vb) = (x.get(k).unwrap_or(&Value::Null), y.get(k).unwrap_or(&Value::Null));
                diff(va, vb, &format!("{path}.{k}"), out);
            }
        }
        (Value::Array(x), Value::Array(y)) => {
            if x.len() != y.len() {
                out.push(format!("{path}: array of {} vs {}", x.len(), y.len()));
            } else {
                for (i, (va, vb)) in x.iter().zip(y.iter()).enumerate() {
                    diff(va, vb, &format!("{path}[{i}]"), out);
                }
            }
        }
        (x, y) if x == y => {}
        (x, y) => out.push(format!("{path}: {} vs {}", short(x), short(y))),
    }
}

fn short(v: &Value) -> String {
    let s = v.to_string();
    if s.len() > 60 { format!("{}…", &s[..60]) } else { s }
}

#[derive(Clone, Copy, Debug)]
enum DocKind {
    Problem,
    Matrix,
    Solution,
}

fn round_trip(kind: DocKind, text: &str) -> Result<(Value, Value), String> {
    let text = text.to_string();
    catch(move || -> Result<(Value, Value), String> {
        let ser = |t: &str| -> Result<String, String> {
            let mut w = BufWriter::new(Vec::new());
            match kind {
                DocKind::Problem => {
                    let d = deserialize_problem(BufReader::new(t.as_bytes())).map_err(|e| format!("parse: {e}"))?;
                    serialize_problem(&d, &mut w).map_err(|e| e.to_string())?;
                }
                DocKind::Matrix => {
                    let d = deserialize_matrix(BufReader::new(t.as_bytes())).map_err(|e| format!("parse: {e}"))?;
                    serde_json::to_writer(&mut w, &d).map_err(|e| e.to_string())?;
                }
                DocKind::Solution => {
                    let d = deserialize_solution(BufReader::new(t.as_bytes())).map_err(|e| format!("parse: {e}"))?;
                    serialize_solution(&d, &mut w).map_err(|e| e.to_string())?;
                }
            }
            String::from_utf8(w.into_inner().map_err(|e| e.to_string())?).map_err(|e| e.to_string())
        };
        let s1 = ser(&text)?;
        let s2 = ser(&s1)?;
        Ok((serde_json::from_str(&s1).map_err(|e| e.to_string())?, serde_json::from_str(&s2).map_err(|e| e.to_string())?))
    })
    .map_err(|p| format!("panic: {p}"))?
}

fn judge_doc(kind: DocKind, name: &str, original: &Value, report: &mut Report) {
    report.add_count("documents", 1);
    report.add_count("evaluations", 1);
    let scen = json!({"part": "serde", "kind": format!("{kind:?}"), "name": name, "document": original});
    match round_trip(kind, &original.to_string()) {
        Ok((s1, s2)) => {
            let mut d = vec![];
            diff(&s1, &s2, "$", &mut d);
            if !d.is_empty() {
                report.violation(Violation::new(format!("serde:{kind:?}:not-idempotent"), format!("{:?}", &d[..d.len().min(4)]), scen.clone()));
            }
            let mut d = vec![];
            diff(original, &s1, "$", &mut d);
            if !d.is_empty() {
                // which keys are involved makes the finding specific
                let keys: BTreeMap<String, ()> = d.iter().map(|x| (x.split(':').next().unwrap_or("").rsplit('.').next().unwrap_or("").trim_end_matches(|c: char| c == ']' || c.is_ascii_digit() || c == '[').to_string(), ())).collect();
                report.violation(Violation::new(
                    format!("serde:{kind:?}:document-changed:{}", keys.keys().cloned().collect::<Vec<_>>().join(",")),
                    format!("{:?}", &d[..d.len().min(4)]),
                    scen,
                ));
            }
        }
        Err(e) => {
            let key = if e.starts_with("panic") { format!("serde:{kind:?}:panic@{}", panic_site(&e)) } else { format!("serde:{kind:?}:cannot-parse-own-format") };
            report.violation(Violation::new(key, e, scen));
        }
    }
}

/// Every variant of a document in which ONE non-empty array is emptied (a list which happens to be empty: no evolution
/// records, no violations, no unassigned jobs, ...). The law for them: the library reads what it has written, twice the same;
/// an empty list and an absent key say the same thing.
fn emptied_array_variants(name: &str, doc: &Value) -> Vec<(String, Value)> {
    fn paths(v: &Value, at: String, out: &mut Vec<String>) {
        match v {
            Value::Array(a) => {
                if !a.is_empty() {
                    out.push(at.clone());
                }
                for (i, x) in a.iter().enumerate() {
                    paths(x, format!("{at}/{i}"), out);
                }
            }
            Value::Object(o) => {
                for (k, x) in o {
                    paths(x, format!("{at}/{k}"), out);
                }
            }
            _ => {}
        }
    }
    let mut ps = vec![];
    paths(doc, String::new(), &mut ps);
    ps.into_iter()
        .filter_map(|p| {
            let mut d = doc.clone();
            *d.pointer_mut(&p)? = json!([]);
            Some((format!("{name}:emptied{p}"), d))
        })
        .collect()
}

fn strip_empty_arrays(v: &Value) -> Value {
    match v {
        Value::Object(o) => Value::Object(o.iter().filter(|(_, x)| !x.as_array().is_some_and(|a| a.is_empty())).map(|(k, x)| (k.clone(), strip_empty_arrays(x))).collect()),
        Value::Array(a) => Value::Array(a.iter().map(strip_empty_arrays).collect()),
        other => other.clone(),
    }
}

/// Round trip of a document with an emptied list: if the format accepts it at all, it must read its own output back and
/// write the same again; compared with the original up to "empty list == absent key".
fn judge_doc_relaxed(kind: DocKind, name: &str, original: &Value, report: &mut Report) {
    report.add_count("documents", 1);
    report.add_count("documents_with_an_emptied_list", 1);
    report.add_count("evaluations", 1);
    let scen = json!({"part": "serde-relaxed", "kind": format!("{kind:?}"), "name": name, "document": original});
    let text = original.to_string();
    // does the format accept the document at all? (a list which may not be empty is a validation matter, not a round trip one)
    let first = match kind {
        DocKind::Solution => catch(|| deserialize_solution(BufReader::new(text.as_bytes())).map(|_| ()).map_err(|e| e.to_string())),
        _ => return,
    };
    match first {
        Ok(Ok(())) => {}
        Ok(Err(_)) => {
            report.add_count("documents_with_an_emptied_list_not_accepted", 1);
            return;
        }
        Err(p) => {
            report.violation(Violation::new(format!("serde:{kind:?}:panic@{}", panic_site(&p)), p, scen));
            return;
        }
    }
    match round_trip(kind, &text) {
        Ok((s1, s2)) => {
            let mut d = vec![];
            diff(&s1, &s2, "$", &mut d);
            if !d.is_empty() {
                report.violation(Violation::new(format!("serde:{kind:?}:not-idempotent"), format!("{:?}", &d[..d.len().min(4)]), scen.clone()));
            }
            let mut d = vec![];
            diff(&strip_empty_arrays(original), &strip_empty_arrays(&s1), "$", &mut d);
            if !d.is_empty() {
                report.violation(Violation::new(format!("serde:{kind:?}:document-changed:emptied-list"), format!("{:?}", &d[..d.len().min(4)]), scen));
            }
        }
        Err(e) => {
            let key = if e.starts_with("panic") { format!("serde:{kind:?}:panic@{}", panic_site(&e)) } else { format!("serde:{kind:?}:cannot-parse-own-format") };
            report.violation(Violation::new(key, e, scen));
        }
    }
}

/// Feature catalogue: documents switching optional fields / enum variants / untagged alternatives on.
fn catalogue() -> Vec<(String, Value)> {
    let base = |jobs: Value, shifts: Value, extra_fleet: Option<(&str, Value)>, plan_extra: Option<(&str, Value)>, objectives: Option<Value>| -> Value {
        let mut fleet = Map::new();
        fleet.insert(
            "vehicles".into(),
            json!([{"typeId": "v", "vehicleIds": ["v_1"], "profile": {"matrix": "car", "scale": 1.25}, "costs": {"fixed": 10.0, "distance": 1.0, "time": 0.5},
                    "shifts": shifts, "capacity": [4, 2], "skills": ["fridge"], "limits": {"maxDistance": 1000.0, "maxDuration": 500.0, "tourSize": 5}}]),
        );
        fleet.insert("profiles".into(), json!([{"name": "car", "speed": 12.5}]));
        if let Some((k, v)) = extra_fleet {
            fleet.insert(k.into(), v);
        }
        let mut plan = Map::new();
        plan.insert("jobs".into(), jobs);
        if let Some((k, v)) = plan_extra {
            plan.insert(k.into(), v);
        }
        let mut root = Map::new();
        root.insert("plan".into(), Value::Object(plan));
        root.insert("fleet".into(), Value::Object(fleet));
        if let Some(o) = objectives {
            root.insert("objectives".into(), o);
        }
        Value::Object(root)
    };
    let t = |s: i64| fmt_time(s as f64);
    let simple_jobs = json!([{"id": "j1", "deliveries": [{"places": [{"location": {"lat": 1.5, "lng": 2.25}, "duration": 3.0, "times": [[t(0), t(100)], [t(200), t(300)]], "tag": "a"}], "demand": [1, 0], "order": 2}],
                              "skills": {"allOf": ["fridge"], "oneOf": ["x", "y"], "noneOf": ["z"]}, "value": 2.5, "group": "g", "compatibility": "c"},
                             {"id": "j2", "pickups": [{"places": [{"location": {"lat": 0.0, "lng": 0.0}, "duration": 1.0}], "demand": [1, 1]}],
                              "deliveries": [{"places": [{"location": {"lat": 3.0, "lng": 3.0}, "duration": 1.0}], "demand": [1, 1]}]},
                             {"id": "j3", "services": [{"places": [{"location": {"lat": 5.0, "lng": 5.0}, "duration": 1.0}, {"location": {"lat": 6.0, "lng": 6.0}, "duration": 2.0, "tag": "alt"}]}]},
                             {"id": "j4", "replacements": [{"places": [{"location": {"lat": 7.0, "lng": 7.0}, "duration": 1.0}], "demand": [1, 0]}]}]);
    let shift = |extra: Value| {
        let mut s = json!({"start": {"earliest": t(0), "latest": t(50), "location": {"lat": 0.0, "lng": 0.0}}, "end": {"earliest": t(10), "latest": t(1000), "location": {"lat": 0.5, "lng": 0.5}}});
        if let Some(o) = extra.as_object() {
            for (k, v) in o {
                s[k] = v.clone();
            }
        }
        json!([s])
    };
    vec![
        ("all-job-fields".into(), base(simple_jobs.clone(), shift(json!({})), None, None, None)),
        ("optional-break-window".into(), base(simple_jobs.clone(), shift(json!({"breaks": [{"time": [t(100), t(200)], "places": [{"duration": 10.0, "location": {"lat": 1.0, "lng": 1.0}, "tag": "b"}], "policy": "skip-if-no-intersection"}]})), None, None, None)),
        ("optional-break-offset".into(), base(simple_jobs.clone(), shift(json!({"breaks": [{"time": [100.0, 200.0], "places": [{"duration": 10.0}], "policy": "skip-if-arrival-before-end"}]})), None, None, None)),
        ("required-break".into(), base(simple_jobs.clone(), shift(json!({"breaks": [{"time": {"earliest": t(100), "latest": t(120)}, "duration": 10.0}]})), None, None, None)),
        ("required-break-offset".into(), base(simple_jobs.clone(), shift(json!({"breaks": [{"time": {"earliest": 100.0, "latest": 120.0}, "duration": 10.0}]})), None, None, None)),
        ("reloads-with-resource".into(), base(simple_jobs.clone(), shift(json!({"reloads": [{"location": {"lat": 0.0, "lng": 0.0}, "duration": 5.0, "times": [[t(0), t(500)]], "tag": "r", "resourceId": "res"}]})), Some(("resources", json!([{"type": "reload", "id": "res", "capacity": [10, 10]}]))), None, None)),
        ("recharges".into(), base(simple_jobs.clone(), shift(json!({"recharges": {"maxDistance": 500.0, "stations": [{"location": {"lat": 2.0, "lng": 2.0}, "duration": 20.0, "times": [[t(0), t(900)]], "tag": "s1"}]}})), None, None, None)),
        ("relations".into(), base(simple_jobs.clone(), shift(json!({})), None, Some(("relations", json!([{"type": "sequence", "jobs": ["departure", "j1"], "vehicleId": "v_1", "shiftIndex": 0}, {"type": "any", "jobs": ["j3"], "vehicleId": "v_1"}, {"type": "strict", "jobs": ["j4", "arrival"], "vehicleId": "v_1"}]))), None)),
        ("clustering".into(), base(simple_jobs.clone(), shift(json!({})), None, Some(("clustering", json!({"type": "vicinity", "profile": {"matrix": "car"}, "threshold": {"duration": 120.0, "distance": 200.0, "minSharedTime": 10.0, "smallestTimeWindow": 5.0, "maxJobsPerCluster": 3}, "visiting": "return", "serving": {"type": "multiplier", "value": 0.5, "parking": 30.0}, "filtering": {"excludeJobIds": ["j4"]}}))), None)),
        ("index-locations".into(), base(json!([{"id": "j1", "deliveries": [{"places": [{"location": {"index": 1}, "duration": 3.0}], "demand": [1]}]}, {"id": "j2", "services": [{"places": [{"location": {"type": "unknown"}, "duration": 1.0}]}]}]), json!([{"start": {"earliest": t(0), "location": {"index": 0}}}]), None, None, None)),
        ("objectives-all".into(), base(simple_jobs.clone(), shift(json!({})), None, None, Some(json!([
            {"type": "maximize-value", "breaks": 1.5}, {"type": "minimize-unassigned", "breaks": 2.0}, {"type": "minimize-tours"}, {"type": "maximize-tours"},
            {"type": "minimize-arrival-time"}, {"type": "tour-order"}, {"type": "fast-service"}, {"type": "compact-tour", "job_radius": 3}, {"type": "hierarchical-areas", "levels": 2},
            {"type": "multi-objective", "strategy": {"name": "sum"}, "objectives": [{"type": "balance-max-load"}, {"type": "balance-activities"}]},
            {"type": "multi-objective", "strategy": {"name": "weighted-sum", "weights": [0.25, 0.75]}, "objectives": [{"type": "balance-distance"}, {"type": "balance-duration"}]},
            {"type": "minimize-distance"}, {"type": "minimize-duration"}, {"type": "minimize-cost"}])))),
    ]
}

fn solution_catalogue() -> Vec<(String, Value)> {
    let t = |s: i64| fmt_time(s as f64);
    let stat = json!({"cost": 10.5, "distance": 100, "duration": 200, "times": {"driving": 100, "serving": 50, "waiting": 20, "break": 30, "commuting": 0, "parking": 0}});
    vec![(
        "all-solution-fields".into(),
        json!({
            "statistic": stat,
            "tours": [{
                "vehicleId": "v_1", "typeId": "v", "shiftIndex": 0, "statistic": stat,
                "stops": [
                    {"location": {"lat": 0.0, "lng": 0.0}, "time": {"arrival": t(0), "departure": t(10)}, "distance": 0, "load": [2, 1], "activities": [{"jobId": "departure", "type": "departure"}]},
                    {"location": {"lat": 1.0, "lng": 1.0}, "time": {"arrival": t(20), "departure": t(40)}, "distance": 50, "load": [1, 1], "parking": {"start": t(20), "end": t(25)},
                     "activities": [{"jobId": "j1", "type": "delivery", "location": {"lat": 1.0, "lng": 1.0}, "time": {"start": t(25), "end": t(30)}, "jobTag": "a",
                                     "commute": {"forward": {"location": {"lat": 1.0, "lng": 1.0}, "distance": 1.5, "time": {"start": t(25), "end": t(26)}}, "backward": {"location": {"lat": 1.0, "lng": 1.0}, "distance": 1.5, "time": {"start": t(30), "end": t(31)}}}},
                                    {"jobId": "j2", "type": "pickup", "location": {"lat": 1.0, "lng": 1.0}, "time": {"start": t(31), "end": t(40)}}]},
                    {"time": {"arrival": t(50), "departure": t(60)}, "load": [1, 1], "activities": [{"jobId": "break", "type": "break"}]},
                    {"location": {"index": 3}, "time": {"arrival": t(70), "departure": t(70)}, "distance": 100, "load": [0, 0], "activities": [{"jobId": "arrival", "type": "arrival"}]}
                ]
            }],
            "unassigned": [{"jobId": "j9", "reasons": [{"code": "CAPACITY_CONSTRAINT", "description": "does not fit", "details": [{"vehicleId": "v_1", "shiftIndex": 0}]}]}],
            "violations": [{"type": "break", "vehicle_id": "v_1", "shift_index": 0}],
            "extras": {"metrics": {"duration": 1, "generations": 2, "speed": 2.5, "evolution": [{"number": 0, "timestamp": 0.5, "iAllRatio": 0.1, "i1000Ratio": 0.2, "isImprovement": true,
                       "population": {"individuals": [{"difference": 0.0, "fitness": [1.0, 2.0]}]}}]}}
        }),
    )]
}

// ---------------------------------------------------------------------------------------------
// (b) init solution round trip

fn routes_signature(core: &CoreProblem, solution: &CoreSolution, plan_ids: &HashSet<String>) -> (Vec<String>, Vec<String>) {
    let mut routes: Vec<String> = solution
        .routes
        .iter()
        .map(|r| {
            let acts: Vec<String> = r
                .tour
                .all_activities()
                .filter_map(|a| {
                    let job = a.retrieve_job()?;
                    let id = job.dimens().get_job_id().cloned()?;
                    if !plan_ids.contains(&id) {
                        return None;
                    }
                    let task = a.job.as_ref().and_then(|s| match &job {
                        vrp_core::models::problem::Job::Multi(m) => m.jobs.iter().position(|x| Arc::ptr_eq(x, s)),
                        _ => Some(0),
                    });
                    Some(format!("{id}/task{task:?}/place{}", a.place.idx))
                })
                .collect();
            format!("{}@{}: {acts:?}", r.actor.vehicle.dimens.get_vehicle_id().cloned().unwrap_or_default(), r.actor.detail.time.start)
        })
        .collect();
    routes.sort();
    let mut unassigned: Vec<String> =
        solution.unassigned.iter().filter_map(|(j, _)| j.dimens().get_job_id().cloned()).filter(|id| plan_ids.contains(id)).collect();
    unassigned.sort();
    let _ = core;
    (routes, unassigned)
}

fn judge_init(family: &str, problem: &PProblem, cfg: &SolveCfg, report: &mut Report) {
    let Ok(solved) = solve(problem, cfg, None, None) else { return };
    report.add_count("init_round_trips", 1);
    report.add_count("evaluations", 1);
    let plan_ids: HashSet<String> = problem.jobs.iter().map(|j| j.id.clone()).collect();
    let scen = json!({"part": "init", "family": family, "problem": problem.name, "cfg": cfg.to_json()});
    let text = solved.json.to_string();
    let core = solved.core.clone();
    let back = catch(|| read_init_solution(BufReader::new(text.as_bytes()), core.clone(), Arc::new(rosomaxa::prelude::DefaultRandom::new_repeatable())));
    match back {
        Ok(Ok(restored)) => {
            let original = routes_signature(&core, &solved.solution, &plan_ids);
            let got = routes_signature(&core, &restored, &plan_ids);
            if original.0 != got.0 {
                report.violation(Violation::new(format!("init:routes-differ:{family}"), format!("solver: {:?}  restored: {:?}", original.0, got.0), scen.clone()));
            }
            if original.1 != got.1 {
                report.violation(Violation::new(format!("init:unassigned-differ:{family}"), format!("solver: {:?}  restored: {:?}", original.1, got.1), scen.clone()));
            }
            // the document itself survives the serde round trip
            judge_doc(DocKind::Solution, &format!("solution of {}", problem.name), &solved.json, report);
        }
        Ok(Err(e)) => {
            // keyed by the message class
            let class: String = e.to_string().chars().filter(|c| !c.is_ascii_digit()).collect::<String>().split('\'').next().unwrap_or("").trim().to_string();
            // "cannot match 'break'" is a recorded limitation for REQUIRED breaks only (family reqbreak): anywhere else it is
            // named by its family, so that the recorded finding does not hide it
            let class = if class == "cannot match" && family != "reqbreak" { format!("{class}:{family}") } else { class };
            report.violation(Violation::new(format!("init:read-error:{class}"), e.to_string(), scen));
        }
        Err(p) => report.violation(Violation::new(format!("init:panic@{}", panic_site(&p)), p, scen)),
    }
}

// ---------------------------------------------------------------------------------------------
// (c) CSV import

fn csv_part(ctx: &RunCtx, report: &mut Report) {
    let t = |s: i64| fmt_time(s as f64);
    // job row alphabet: (id, lat, lng, demand, duration, tw)
    let rows: Vec<(String, f64, f64, i32, usize, Option<(String, String)>)> = vec![
        ("job1".into(), 52.5, 13.4, -1, 120, None),
        ("job2".into(), 52.51, 13.41, 2, 240, Some((t(0), t(3600)))),
        ("job2".into(), 52.52, 13.42, -2, 60, None),
        ("job3".into(), 52.53, 13.43, 0, 300, Some((t(100), t(200)))),
        ("job4".into(), 52.5, 13.4, 3, 0, None),
    ];
    let vehicles: Vec<(String, f64, f64, i32, String, String, usize, String)> = vec![
        ("vehicle1".into(), 52.4, 13.3, 10, t(0), t(36000), 2, "car".into()),
        ("vehicle2".into(), 52.45, 13.35, 5, t(0), t(7200), 1, "car".into()),
        ("truck".into(), 52.4, 13.3, 40, t(1000), t(50000), 3, "truck".into()),
    ];
    let max_rows = ctx.tier.pick(3, 4);
    // every sequence of distinct rows (order matters: same ids need not be adjacent)
    let mut tables: Vec<Vec<usize>> = vec![];
    fn rec(n: usize, max: usize, cur: &mut Vec<usize>, out: &mut Vec<Vec<usize>>) {
        if !cur.is_empty() {
            out.push(cur.clone());
        }
        if cur.len() >= max {
            return;
        }
        for i in 0..n {
            if !cur.contains(&i) {
                cur.push(i);
                rec(n, max, cur, out);
                cur.pop();
            }
        }
    }
    rec(rows.len(), max_rows, &mut vec![], &mut tables);
    let mut vehicle_tables: Vec<Vec<usize>> = vec![];
    // up to three rows: the same profile in neighbouring and in non-neighbouring rows
    rec(vehicles.len(), 3, &mut vec![], &mut vehicle_tables);
    for jt in &tables {
        // a job id must not carry two rows of the same kind... any combination the docs allow: pickup+delivery of one id
        let jobs_csv = format!(
            "ID,LAT,LNG,DEMAND,DURATION,TW_START,TW_END\n{}",
            jt.iter()
                .map(|i| {
                    let r = &rows[*i];
                    format!("{},{},{},{},{},{},{}\n", r.0, r.1, r.2, r.3, r.4, r.5.as_ref().map_or("", |t| &t.0), r.5.as_ref().map_or("", |t| &t.1))
                })
                .collect::<String>()
        );
        for vt in &vehicle_tables {
            report.add_count("csv_imports", 1);
            report.add_count("evaluations", 1);
            let vehicles_csv = format!(
                "ID,LAT,LNG,CAPACITY,TW_START,TW_END,AMOUNT,PROFILE\n{}",
                vt.iter()
                    .map(|i| {
                        let v = &vehicles[*i];
                        format!("{},{},{},{},{},{},{},{}\n", v.0, v.1, v.2, v.3, v.4, v.5, v.6, v.7)
                    })
                    .collect::<String>()
            );
            let scen = json!({"part": "csv", "jobs": jobs_csv, "vehicles": vehicles_csv});
            let same_profile_twice = vt.len() == 2 && vehicles[vt[0]].7 == vehicles[vt[1]].7;
            let imported = catch(|| vrp_cli::extensions::import::read_csv_problem(BufReader::new(jobs_csv.as_bytes()), BufReader::new(vehicles_csv.as_bytes())));
            let problem = match imported {
                Ok(Ok(p)) => p,
                Ok(Err(e)) => {
                    report.violation(Violation::new("csv:import-error", format!("{e}"), scen));
                    continue;
                }
                Err(p) => {
                    report.violation(Violation::new(format!("csv:panic@{}", panic_site(&p)), p, scen));
                    continue;
                }
            };
            let mut w = BufWriter::new(Vec::new());
            if serialize_problem(&problem, &mut w).is_err() {
                report.violation(Violation::new("csv:cannot-serialise", "".to_string(), scen));
                continue;
            }
            let text = String::from_utf8(w.into_inner().unwrap()).unwrap();
            let doc: Value = serde_json::from_str(&text).unwrap_or(Value::Null);
            // carries exactly the tables' data
            let mut errs = vec![];
            let ids: HashSet<&str> = jt.iter().map(|i| rows[*i].0.as_str()).collect();
            let got_ids: Vec<&str> = doc["plan"]["jobs"].as_array().map(|a| a.iter().filter_map(|j| j["id"].as_str()).collect()).unwrap_or_default();
            if got_ids.len() != ids.len() || got_ids.iter().any(|i| !ids.contains(i)) {
                errs.push(format!("job ids {got_ids:?}, tables have {ids:?}"));
            }
            for i in jt {
                let r = &rows[*i];
                let list = if r.3 > 0 { "pickups" } else if r.3 < 0 { "deliveries" } else { "services" };
                let job = doc["plan"]["jobs"].as_array().and_then(|a| a.iter().find(|j| j["id"] == r.0.as_str()));
                let task = job.and_then(|j| j[list].as_array()).and_then(|ts| {
                    ts.iter().find(|t| t["places"][0]["location"]["lat"].as_f64() == Some(r.1) && t["places"][0]["location"]["lng"].as_f64() == Some(r.2))
                });
                match task {
                    None => errs.push(format!("row {} ({list}) has no task with its coordinates", r.0)),
                    Some(task) => {
                        if task["places"][0]["duration"].as_f64() != Some(r.4 as f64) {
                            errs.push(format!("row {}: duration {} vs {}", r.0, task["places"][0]["duration"], r.4));
                        }
                        let demand = task["demand"][0].as_i64();
                        if (r.3 != 0 && demand != Some(r.3.abs() as i64)) || (r.3 == 0 && demand.is_some()) {
                            errs.push(format!("row {}: demand {demand:?} vs {}", r.0, r.3));
                        }
                        let times = &task["places"][0]["times"];
                        match &r.5 {
                            Some((s, e)) if times[0][0].as_str() != Some(s) || times[0][1].as_str() != Some(e) => errs.push(format!("row {}: window {times} vs [{s},{e}]", r.0)),
                            None if !times.is_null() => errs.push(format!("row {}: unexpected window {times}", r.0)),
                            _ => {}
                        }
                    }
                }
            }
            for i in vt {
                let v = &vehicles[*i];
                let vt_doc = doc["fleet"]["vehicles"].as_array().and_then(|a| a.iter().find(|x| x["typeId"] == v.0.as_str()));
                match vt_doc {
                    None => errs.push(format!("vehicle type {} missing", v.0)),
                    Some(d) => {
                        if d["vehicleIds"].as_array().map(|a| a.len()) != Some(v.6) {
                            errs.push(format!("vehicle {}: amount {} vs {}", v.0, d["vehicleIds"], v.6));
                        }
                        if d["capacity"][0].as_i64() != Some(v.3 as i64) || d["profile"]["matrix"] != v.7.as_str() {
                            errs.push(format!("vehicle {}: capacity/profile {} {}", v.0, d["capacity"], d["profile"]));
                        }
                        let s = &d["shifts"][0];
                        if s["start"]["earliest"] != v.4.as_str() || s["end"]["latest"] != v.5.as_str() || s["start"]["location"]["lat"].as_f64() != Some(v.1) || s["end"]["location"]["lng"].as_f64() != Some(v.2) {
                            errs.push(format!("vehicle {}: shift {s}", v.0));
                        }
                    }
                }
            }
            if !errs.is_empty() {
                report.violation(Violation::new("csv:data-differs", errs.join("; "), scen.clone()));
            }
            // a job id with two rows of the same sign is outside the documented use ("pickup + delivery")
            let mut kinds: HashSet<(String, i32)> = HashSet::new();
            let ambiguous = jt.iter().any(|i| !kinds.insert((rows[*i].0.clone(), rows[*i].3.signum())));
            // pickup/delivery pairs must balance to be a valid multi job
            let unbalanced = ids.iter().any(|id| {
                let rs: Vec<i32> = jt.iter().filter(|i| rows[**i].0 == *id).map(|i| rows[*i].3).collect();
                rs.len() > 1 && rs.iter().sum::<i32>() != 0
            });
            if ambiguous || unbalanced {
                continue;
            }
            // valid problem
            match catch(|| text.clone().read_pragmatic()) {
                Ok(Ok(_)) => {}
                Ok(Err(e)) => {
                    let text = format!("{e}");
                    let code: String = text.chars().take_while(|c| c.is_ascii_alphanumeric()).collect();
                    report.violation(Violation::new(
                        format!("csv:imported-problem-invalid:{code}{}", if same_profile_twice { ":two-vehicle-types-with-one-profile" } else { "" }),
                        text,
                        scen,
                    ))
                }
                Err(p) => report.violation(Violation::new(format!("csv:validate-panic@{}", panic_site(&p)), p, scen)),
            }
        }
    }
}

fn slice(tier: Tier) -> Vec<(String, PProblem)> {
    let mut out = vec![];
    for (name, problems) in all_families(tier) {
        let per = match (name, tier) {
            ("core", Tier::Quick) => 60,
            ("places", _) => usize::MAX,
            // breaks with / without location and tag, reloads, resources, two shifts: every problem
            ("cond", _) => usize::MAX,
            (_, Tier::Quick) => 10,
            // thorough: every problem of every family
            _ => usize::MAX,
        };
        let step = (problems.len() / per.clamp(1, problems.len().max(1))).max(1);
        // conditional jobs which differ by their index only (untagged reloads) are always part of the slice
        let special: Vec<PProblem> = problems.iter().filter(|p| p.name.contains("untagged")).cloned().collect();
        let mut picked: Vec<PProblem> = problems.into_iter().step_by(step).take(per).collect();
        for p in special {
            if !picked.iter().any(|q| q.name == p.name) {
                picked.push(p);
            }
        }
        out.extend(picked.into_iter().map(|p| (name.to_string(), p)));
    }
    // recharge stations, required breaks, time-dependent matrices
    let step = tier.pick(6, 1);
    out.extend(family_combo(2).into_iter().step_by(tier.pick(8, 1)).map(|p| ("combo".to_string(), p)));
    if tier != Tier::Quick {
        out.extend(family_combo(3).into_iter().map(|p| ("combo".to_string(), p)));
        out.extend(family_cluster().into_iter().map(|p| ("cluster".to_string(), p)));
        out.extend(family_cluster_attr().into_iter().map(|p| ("cluster".to_string(), p)));
        out.extend(family_mixed10().into_iter().map(|p| ("mixed10".to_string(), p)));
        out.extend(family_line12().into_iter().map(|p| ("line12".to_string(), p)));
    }
    out.extend(family_recharge().into_iter().step_by(step).map(|p| ("recharge".to_string(), p)));
    let step2 = tier.pick(12, 1);
    out.extend(family_reqbreak().into_iter().step_by(step2).map(|p| ("reqbreak".to_string(), p)));
    out.extend(family_timedep().into_iter().step_by(step2).map(|p| ("timedep".to_string(), p)));
    out
}

pub fn worker(ctx: &RunCtx, shard: usize, of: usize, _extra: &Extra) -> Report {
    let mut report = Report::new("exploration");
    let cfgs = [SolveCfg { generations: 3, ..SolveCfg::default() }, SolveCfg { population: PopKind::Greedy, hyper: HyperKind::Static, generations: 1, seed: 1, ..SolveCfg::default() }];
    for (idx, (family, problem)) in slice(ctx.tier).iter().enumerate() {
        if idx % of != shard {
            continue;
        }
        judge_doc(DocKind::Problem, &problem.name, &problem.problem_json(), &mut report);
        for m in problem.matrices_json() {
            judge_doc(DocKind::Matrix, &problem.name, &m, &mut report);
        }
        if family != "unreach" {
            for cfg in &cfgs {
                judge_init(family, problem, cfg, &mut report);
            }
        }
        if idx % 29 == 0 {
            report.sample(json!({"family": family, "problem": problem.name}));
        }
    }
    report
}

pub fn run(ctx: &RunCtx) -> Report {
    let n = slice(ctx.tier).len();
    let mut report = run_sharded_report(ctx, "exploration", n.min(ctx.threads * 4), &[]);
    for (name, doc) in catalogue() {
        judge_doc(DocKind::Problem, &name, &doc, &mut report);
    }
    for (name, doc) in solution_catalogue() {
        for (vname, variant) in emptied_array_variants(&name, &doc) {
            judge_doc_relaxed(DocKind::Solution, &vname, &variant, &mut report);
        }
        judge_doc(DocKind::Solution, &name, &doc, &mut report);
    }
    judge_doc(DocKind::Matrix, "matrix-with-timestamp", &json!({"profile": "car", "timestamp": fmt_time(100.), "travelTimes": [0, 1, 1, 0], "distances": [0, 2, 2, 0], "errorCodes": [0, 1, 0, 0]}), &mut report);
    judge_doc(DocKind::Matrix, "matrix-minimal", &json!({"travelTimes": [0], "distances": [0]}), &mut report);
    csv_part(ctx, &mut report);
    let distinct = report.get_count("documents") + report.get_count("init_round_trips") + report.get_count("csv_imports");
    report.set("distinct_nontrivial", distinct);
    report.set("exhaustive", true);
    report.set(
        "rule",
        "(a) every problem and matrix document of a slice of the families, a catalogue switching every optional field / enum variant / untagged alternative on, and \
         every solver solution document: parse -> serialise twice, both serialisations equal and equal to the original tree (numbers numerically, null == absent); \
         (b) every (problem, solver solution) pair of the slice x 2 configurations: written, read back as initial solution and compared activity by activity; \
         (c) every sequence of <= 3/4 distinct rows of a 5-row job alphabet x every sequence of <= 2 vehicle rows: imported, compared cell by cell and validated",
    );
    report.assume("documents are generated by the harness (no nulls, canonical RFC3339 UTC times)");
    report
}

pub fn replay(ctx: &RunCtx, scenario: &Value) -> Result<Vec<Violation>, String> {
    let mut report = Report::new("exploration");
    match scenario["part"].as_str().unwrap_or("") {
        "serde" => {
            let kind = match scenario["kind"].as_str().unwrap_or("") {
                "Matrix" => DocKind::Matrix,
                "Solution" => DocKind::Solution,
                _ => DocKind::Problem,
            };
            judge_doc(kind, scenario["name"].as_str().unwrap_or(""), &scenario["document"], &mut report);
        }
        "init" => {
            let family = scenario["family"].as_str().ok_or("family")?;
            let name = scenario["problem"].as_str().ok_or("problem")?;
            let (family, problem) = slice(Tier::Thorough).into_iter().chain(slice(Tier::Quick)).find(|(f, p)| f == family && p.name == name).ok_or("problem not in slice")?;
            judge_init(&family, &problem, &SolveCfg::from_json(&scenario["cfg"]), &mut report);
        }
        _ => csv_part(ctx, &mut report),
    }
    Ok(report.violations)
}
