//! C08 end-to-end consequence: a solve seeded with an initial solution never returns a worse one.
//!
//! Part 1 (here): the generic evolution pipeline (`EvolutionConfigBuilder` -> `EvolutionSimulator`) on the vector example,
//! every order of the builder calls that touch the initial configuration, every population kind, few generations,
//! operators that only produce worse solutions. Part 2 (VRP solver seeded through the pragmatic initial reader) lives
//! in the pragmatic family checks.

use crate::env::*;
use crate::*;
use rosomaxa::evolution::*;
use rosomaxa::example::*;
use rosomaxa::hyper::*;
use rosomaxa::population::*;
use rosomaxa::prelude::*;
use rosomaxa::utils::Parallelism;
use serde_json::{Value, json};
use std::sync::Arc;

struct Worsen;

impl HeuristicSearchOperator for Worsen {
    type Context = VectorContext;
    type Objective = VectorObjective;
    type Solution = VectorSolution;
    fn search(&self, ctx: &VectorContext, solution: &VectorSolution) -> VectorSolution {
        // moves away from the optimum at the origin
        let data: Vec<f64> = solution.data.iter().map(|x| x * 1.5 + 1.).collect();
        VectorSolution::new_with_objective(data, ctx.objective())
    }
}

impl HeuristicDiversifyOperator for Worsen {
    type Context = VectorContext;
    type Objective = VectorObjective;
    type Solution = VectorSolution;
    fn diversify(&self, ctx: &VectorContext, solution: &VectorSolution) -> Vec<VectorSolution> {
        vec![self.search(ctx, solution)]
    }
}

fn sphere() -> FitnessFn {
    Arc::new(|d: &[f64]| d.iter().map(|x| x * x).sum())
}

#[derive(Clone, Debug)]
struct Case {
    population: usize,     // 0 greedy, 1 elitism, 2 rosomaxa (default)
    order: usize,          // permutation index of the builder calls
    generations: usize,    // max generations
    seeds: usize,          // number of seed solutions (best first or last)
    best_last: bool,
    max_init: Option<usize>,
    initial_max: usize,
    dynamic: bool,
}

fn run_case(c: &Case) -> Result<(f64, f64), String> {
    reseed(c.order as u64);
    install_policy(PlanPolicy::Sequential);
    let r = catch(|| -> Result<(f64, f64), String> {
        let environment = Arc::new(Environment::new(
            Arc::new(DefaultRandom::new_repeatable()),
            None,
            Parallelism::new_with_cpus(2),
            Arc::new(|_| {}),
            false,
        ));
        let objective = Arc::new(VectorObjective::new(sphere(), Arc::new(|d: &[f64]| d.to_vec())));
        let population: Box<VectorPopulation> = match c.population {
            0 => Box::new(Greedy::new(objective.clone(), 1, None)),
            1 => Box::new(Elitism::new(objective.clone(), environment.random.clone(), 2, 2)),
            _ => rosomaxa::get_default_population(objective.clone(), VectorRosomaxaContext, environment.clone(), 2),
        };
        let context = VectorContext::new(objective.clone(), population, TelemetryMode::None, environment.clone());
        let mut seeds: Vec<VectorSolution> = (0..c.seeds)
            .map(|i| VectorSolution::new_with_objective(vec![0.01 + i as f64, 0.], objective.as_ref()))
            .collect();
        if c.best_last {
            seeds.reverse();
        }
        let seed_best = seeds.iter().map(|s| s.fitness().next().unwrap()).fold(f64::INFINITY, f64::min);
        let operators = || -> InitialOperators<VectorContext, VectorObjective, VectorSolution> {
            vec![(Box::new(VectorInitialOperator::new(vec![10., 10.])), 1)]
        };
        let heuristic: Box<dyn HyperHeuristic<Context = VectorContext, Objective = VectorObjective, Solution = VectorSolution>> = if c.dynamic {
            Box::new(DynamicSelective::new(vec![(Arc::new(Worsen), "worsen".to_string(), 1.)], vec![Arc::new(Worsen)], environment.as_ref()))
        } else {
            let random = environment.random.clone();
            Box::new(StaticSelective::new(
                vec![(Arc::new(Worsen), (Box::new(move |_, _| random.is_hit(1.)), Default::default()))],
                vec![Arc::new(Worsen)],
            ))
        };
        let mut builder = EvolutionConfigBuilder::<VectorContext, VectorObjective, VectorSolution, i32>::default()
            .with_heuristic(heuristic)
            .with_objective(objective.clone())
            .with_context(context);
        // the three calls which touch the initial configuration / termination, in every order
        let orders = [[0, 1, 2], [0, 2, 1], [1, 0, 2], [1, 2, 0], [2, 0, 1], [2, 1, 0]];
        let mut seeds = Some(seeds);
        for step in orders[c.order % orders.len()] {
            builder = match step {
                0 => builder.with_init_solutions(seeds.take().unwrap(), c.max_init),
                1 => builder.with_initial(c.initial_max, 0.05, operators()),
                _ => builder.with_max_generations(Some(c.generations)),
            };
        }
        let config = builder.build().map_err(|e| e.to_string())?;
        let (solutions, _) = EvolutionSimulator::new(config).map_err(|e| e.to_string())?.run().map_err(|e| e.to_string())?;
        let best = solutions.iter().map(|s| s.fitness().next().unwrap()).fold(f64::INFINITY, f64::min);
        if solutions.is_empty() {
            return Err("no solution returned".into());
        }
        let first = solutions[0].fitness().next().unwrap();
        if first > best {
            return Err(format!("returned ranking is not sorted: first {first}, best {best}"));
        }
        Ok((seed_best, first))
    });
    uninstall_plan();
    match r {
        Ok(x) => x,
        Err(p) => Err(format!("panic: {p}")),
    }
}

fn cases(tier: Tier) -> Vec<Case> {
    let mut out = vec![];
    for population in 0..3 {
        for order in 0..6 {
            for generations in tier.pick(vec![0, 1, 3], vec![0, 1, 2, 3, 10]) {
                for (seeds, best_last) in [(1, false), (2, false), (2, true)] {
                    for (max_init, initial_max) in [(None, 4), (Some(2), 4), (Some(4), 2), (None, 2)] {
                        for dynamic in [true, false] {
                            out.push(Case { population, order, generations, seeds, best_last, max_init, initial_max, dynamic });
                        }
                    }
                }
            }
        }
    }
    out
}

fn case_json(c: &Case) -> Value {
    json!({"part": "solve", "population": c.population, "order": c.order, "generations": c.generations, "seeds": c.seeds,
           "best_last": c.best_last, "max_init": c.max_init, "initial_max": c.initial_max, "dynamic": c.dynamic})
}

fn judge(c: &Case) -> Option<Violation> {
    match run_case(c) {
        Ok((seed, got)) if got <= seed => None,
        Ok((seed, got)) => Some(Violation::new(
            "seeded-solve:worse-than-seed",
            format!("seeded with fitness {seed}, solve returned {got}"),
            case_json(c),
        )),
        Err(e) => Some(Violation::new("seeded-solve:error", e, case_json(c))),
    }
}

pub fn run_reseed_solves(ctx: &RunCtx, report: &mut Report) {
    let cases = cases(ctx.tier);
    let results = par_map(ctx.threads, cases.len(), |i| judge(&cases[i]));
    for (i, r) in results.into_iter().enumerate() {
        report.add_count("seeded_solves", 1);
        report.add_count("transitions", 1);
        report.add_count("traces_validated_against_impl", 1);
        if let Some(v) = r {
            report.violation(v);
        }
        if i % 400 == 3 {
            report.sample(case_json(&cases[i]));
        }
    }
}

pub fn replay(scenario: &Value) -> Result<Vec<Violation>, String> {
    let n = |k: &str| scenario[k].as_u64().map(|x| x as usize);
    let c = Case {
        population: n("population").ok_or("population")?,
        order: n("order").ok_or("order")?,
        generations: n("generations").ok_or("generations")?,
        seeds: n("seeds").ok_or("seeds")?,
        best_last: scenario["best_last"].as_bool().unwrap_or(false),
        max_init: n("max_init"),
        initial_max: n("initial_max").unwrap_or(4),
        dynamic: scenario["dynamic"].as_bool().unwrap_or(true),
    };
    Ok(judge(&c).into_iter().collect())
}
