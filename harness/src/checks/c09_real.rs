//! C09 part (c): real pragmatic goals over real solver states (filled in once the pragmatic families exist).
use crate::*;

pub fn run_real_goals(_ctx: &RunCtx, _report: &mut Report) {}
