//! C19 — the self-organising population keeps a well-formed map.
//!
//! (A) every history of {store_batch, smooth, compact, set_learning_rate} up to a depth bound on the real `Network`
//!     with harness input/storage types, over input families x network configurations x random policies;
//! (B) the real `Rosomaxa` population on the vector example: network state observed through the public `NetworkState`;
//! (C) real VRP individuals (including the solution without tours): weight vectors finite and of constant dimension.

use crate::corekit::*;
use crate::env::*;
use crate::*;
use rosomaxa::algorithms::gsom::*;
use rosomaxa::example::{VectorObjective, VectorRosomaxaContext, VectorSolution};
use rosomaxa::population::{HeuristicPopulation, Rosomaxa, RosomaxaConfig, RosomaxaSolution};
use rosomaxa::prelude::*;
use rosomaxa::utils::Parallelism;
use serde_json::{Value, json};
use std::collections::HashSet;
use std::fmt::{Display, Formatter};
use std::ops::RangeBounds;
use std::sync::Arc;

// ---------------------------------------------------------------------------------------------
// harness types

#[derive(Clone, Debug)]
struct Inp {
    w: Vec<f64>,
}
impl Input for Inp {
    fn weights(&self) -> &[Float] {
        &self.w
    }
}

struct Store {
    items: Vec<Inp>,
    cap: usize,
}
impl Display for Store {
    fn fmt(&self, f: &mut Formatter<'_>) -> std::fmt::Result {
        write!(f, "{}", self.items.len())
    }
}
impl Storage for Store {
    type Item = Inp;
    fn add(&mut self, input: Inp) {
        self.items.push(input);
        if self.items.len() > self.cap {
            self.items.remove(0);
        }
    }
    fn iter(&self) -> Box<dyn Iterator<Item = &'_ Inp> + '_> {
        Box::new(self.items.iter())
    }
    fn drain<R: RangeBounds<usize>>(&mut self, range: R) -> Vec<Inp> {
        self.items.drain(range).collect()
    }
    fn resize(&mut self, size: usize) {
        self.cap = size;
        self.items.truncate(size);
    }
    fn size(&self) -> usize {
        self.items.len()
    }
}
struct Factory {
    cap: usize,
}
impl StorageFactory<(), Inp, Store> for Factory {
    fn eval(&self, _: &()) -> Store {
        Store { items: vec![], cap: self.cap }
    }
}

type Net = Network<(), Inp, Store, Factory>;

// ---------------------------------------------------------------------------------------------
// input families: a deterministic stream per family

fn stream(family: usize, i: usize) -> Vec<f64> {
    let k = i as f64;
    match family {
        // two tight clusters
        0 => {
            if i % 2 == 0 {
                vec![1. + 0.01 * k, 1. - 0.01 * k]
            } else {
                vec![10. + 0.01 * k, 10. - 0.02 * k]
            }
        }
        // exact duplicates
        1 => vec![3., 4.],
        // a far outlier every 5th input
        2 => {
            if i % 5 == 4 {
                vec![1e6, -1e6]
            } else {
                vec![(i % 3) as f64, (i % 2) as f64]
            }
        }
        // constant in one dimension, zero in the other (zero range)
        3 => vec![0., 5.],
        // collinear
        _ => vec![k, 2. * k],
    }
}
const FAMILIES: usize = 5;

#[derive(Clone, Debug, PartialEq)]
enum Op {
    Store(usize), // batch size 1..3
    Smooth,
    Compact,
    Rate(u8),
}

impl Op {
    fn to_json(&self) -> Value {
        match self {
            Op::Store(n) => json!(["store_batch", n]),
            Op::Smooth => json!(["smooth"]),
            Op::Compact => json!(["compact"]),
            Op::Rate(r) => json!(["set_learning_rate", r]),
        }
    }
    fn from_json(v: &Value) -> Option<Op> {
        let a = v.as_array()?;
        Some(match a[0].as_str()? {
            "store_batch" => Op::Store(a[1].as_u64()? as usize),
            "smooth" => Op::Smooth,
            "compact" => Op::Compact,
            _ => Op::Rate(a[1].as_u64()? as u8),
        })
    }
}

#[derive(Clone, Debug)]
struct Cfg {
    spread: f64,
    distribution: f64,
    node_size: usize,
    rebalance: usize,
    initial_error: bool,
    initial: usize,
}

fn configs(tier: Tier) -> Vec<Cfg> {
    let mut out = vec![];
    for spread in [0.25, 0.75] {
        for distribution in [0.25, 0.9] {
            for node_size in [1, 2] {
                for rebalance in [2, 10] {
                    for initial_error in [true, false] {
                        for initial in tier.pick(vec![4], vec![4, 6]) {
                            out.push(Cfg { spread, distribution, node_size, rebalance, initial_error, initial });
                        }
                    }
                }
            }
        }
    }
    out
}

fn wf(net: &Net, cfg: &Cfg) -> Vec<(String, String)> {
    let mut errs = vec![];
    let dim = net.dimension();
    let mut coords = HashSet::new();
    let mut count = 0;
    for (coord, node) in net.iter() {
        count += 1;
        if *coord != node.coordinate {
            errs.push(("key-vs-coordinate".into(), format!("stored under {coord:?}, node says {:?}", node.coordinate)));
        }
        if !coords.insert(node.coordinate) {
            errs.push(("duplicate-coordinate".into(), format!("{:?}", node.coordinate)));
        }
        if node.weights.len() != dim {
            errs.push(("weights-dimension".into(), format!("{} != {dim}", node.weights.len())));
        }
        if node.weights.iter().any(|w| !w.is_finite()) {
            errs.push(("weights-not-finite".into(), format!("{:?} at {coord:?}", node.weights)));
        }
        if node.storage.size() > cfg.node_size {
            errs.push(("node-capacity".into(), format!("{} individuals in a node of capacity {}", node.storage.size(), cfg.node_size)));
        }
        if !node.error.is_finite() {
            errs.push(("node-error-not-finite".into(), format!("{}", node.error)));
        }
        match net.find(coord) {
            Some(found) if found.coordinate == *coord => {}
            _ => errs.push(("find".into(), format!("find({coord:?}) does not return that node"))),
        }
        let (m, u) = (node.mse(net), node.unified_distance(net, 1));
        if !m.is_finite() || !u.is_finite() {
            errs.push(("node-measure-not-finite".into(), format!("mse={m} unified_distance={u} at {coord:?}")));
        }
    }
    if count != net.size() || net.get_nodes().count() != count || net.get_coordinates().count() != count {
        errs.push(("size".into(), format!("size()={} but iter() yields {count}", net.size())));
    }
    if net.find(&Coordinate(i32::MAX, i32::MAX)).is_some() {
        errs.push(("find".into(), "find of an absent coordinate returns a node".into()));
    }
    let (mse, mud) = (net.mse(), net.max_unified_distance());
    if !mse.is_finite() || !mud.is_finite() {
        errs.push(("network-measure-not-finite".into(), format!("mse={mse} max_unified_distance={mud}")));
    }
    errs
}

/// Replays history; checks well-formedness after every step (+ compaction rules); returns findings and final size.
fn replay_net(family: usize, cfg: &Cfg, history: &[Op], policy: u64) -> Result<(Vec<(String, String)>, usize, String), String> {
    let fallback = if policy == 0 { Fallback::Default } else { Fallback::Stream(policy) };
    let random: Arc<dyn Random> = Arc::new(ScriptedRandom::new(vec![], fallback));
    reseed(policy);
    install_policy(PlanPolicy::Sequential);
    let r = catch(|| -> Result<(Vec<(String, String)>, usize, String), String> {
        let mut next_input = 0usize;
        let mut take = |n: usize| -> Vec<Inp> {
            (0..n)
                .map(|_| {
                    let w = stream(family, next_input);
                    next_input += 1;
                    Inp { w }
                })
                .collect()
        };
        let config = NetworkConfig {
            node_size: cfg.node_size,
            spread_factor: cfg.spread,
            distribution_factor: cfg.distribution,
            learning_rate: 0.3,
            rebalance_memory: cfg.rebalance,
            has_initial_error: cfg.initial_error,
        };
        let mut net: Net = Network::new(&(), take(cfg.initial), config, random.clone(), |cap| Factory { cap }).map_err(|e| e.to_string())?;
        let mut errs = wf(&net, cfg).into_iter().map(|(k, w)| (k, format!("after new: {w}"))).collect::<Vec<_>>();
        if net.size() < 4 {
            errs.push(("initial-size".into(), format!("{} nodes after construction", net.size())));
        }
        let mut time = 0;
        for (i, op) in history.iter().enumerate() {
            let before = net.size();
            match op {
                Op::Store(n) => {
                    time += 1;
                    net.store_batch(&(), take(*n), time);
                }
                Op::Smooth => net.smooth(&(), 1, |_| ()),
                Op::Compact => {
                    net.compact(&());
                    if net.size() > before {
                        errs.push(("compact-grows".into(), format!("{before} -> {} nodes", net.size())));
                    }
                    if net.size() < 4 {
                        errs.push(("compact-below-four".into(), format!("{before} -> {} nodes", net.size())));
                    }
                }
                Op::Rate(r) => net.set_learning_rate(if *r == 0 { 0.1 } else { 1.0 }),
            }
            if matches!(op, Op::Smooth | Op::Rate(_)) && net.size() != before {
                errs.push(("size-changed".into(), format!("{op:?} changed the number of nodes {before} -> {}", net.size())));
            }
            errs.extend(wf(&net, cfg).into_iter().map(|(k, w)| (k, format!("after step {i} ({op:?}): {w}"))));
        }
        let mut coords: Vec<(i32, i32)> = net.get_coordinates().map(|c| (c.0, c.1)).collect();
        coords.sort();
        Ok((errs, net.size(), format!("{coords:?}")))
    });
    uninstall_plan();
    match r {
        Ok(x) => x,
        Err(p) => Err(format!("panic: {p}")),
    }
}

fn ops() -> Vec<Op> {
    vec![Op::Store(1), Op::Store(2), Op::Store(3), Op::Smooth, Op::Compact, Op::Rate(0), Op::Rate(1)]
}

fn scenario(family: usize, cfg: &Cfg, history: &[Op], policy: u64) -> Value {
    json!({"part": "network", "family": family,
        "cfg": [cfg.spread, cfg.distribution, cfg.node_size, cfg.rebalance, cfg.initial_error, cfg.initial],
        "history": history.iter().map(|o| o.to_json()).collect::<Vec<_>>(), "policy": policy})
}

fn run_networks(ctx: &RunCtx, report: &mut Report) {
    let cfgs = configs(ctx.tier);
    let depth = ctx.tier.pick(4, 5);
    let policies: Vec<u64> = ctx.tier.pick(vec![0, 1], vec![0, 1, 2]);
    let jobs: Vec<(usize, usize)> = (0..FAMILIES).flat_map(|f| (0..cfgs.len()).map(move |c| (f, c))).collect();
    let all_ops = ops();
    let parts = par_map(ctx.threads, jobs.len(), |j| {
        let (family, ci) = jobs[j];
        let cfg = &cfgs[ci];
        let mut r = Report::new("model_checking");
        let mut shapes: HashSet<String> = HashSet::new();
        // only complete histories are replayed: every prefix state is checked on the way (wf after every step)
        let mut dims = vec![all_ops.len(); depth];
        // grow phase first: histories start with two stores so that the map has something to contract
        dims[0] = 3;
        product(&dims, |idx| {
            let history: Vec<Op> = idx.iter().map(|i| all_ops[*i].clone()).collect();
            for &policy in &policies {
                r.add_count("transitions", depth as u64);
                r.add_count("traces_validated_against_impl", 1);
                match replay_net(family, cfg, &history, policy) {
                    Ok((errs, _, shape)) => {
                        shapes.insert(shape);
                        let mut seen = HashSet::new();
                        for (key, what) in errs {
                            if seen.insert(key.clone()) {
                                r.violation(Violation::new(format!("network:{key}"), what, scenario(family, cfg, &history, policy)));
                            }
                        }
                    }
                    Err(e) => r.violation(Violation::new(
                        format!("network:{}", if e.starts_with("panic") { format!("panic@{}", panic_site(&e)) } else { "error".to_string() }),
                        e,
                        scenario(family, cfg, &history, policy),
                    )),
                }
            }
        });
        r.add_count("states", shapes.len() as u64);
        if j % 37 == 0 {
            r.sample(scenario(family, cfg, &[Op::Store(3), Op::Store(2), Op::Compact, Op::Smooth], 0));
        }
        r
    });
    for p in parts {
        report.merge(p);
    }
}

// ---------------------------------------------------------------------------------------------
// (B) real Rosomaxa on the vector example, observed through NetworkState

fn run_rosomaxa(ctx: &RunCtx, report: &mut Report) {
    // (node size, elite size): node capacity below, equal to and above the elite size
    let sizes = [(1usize, 2usize), (2, 2), (3, 2), (3, 1), (5, 2)];
    let jobs: Vec<(usize, (usize, usize), u64)> =
        (0..FAMILIES).flat_map(|f| sizes.iter().flat_map(move |n| (0..ctx.tier.pick(2u64, 4)).map(move |p| (f, *n, p)))).collect();
    let parts = par_map(ctx.threads, jobs.len(), |j| {
        let (family, (node_size, elite_size), policy) = jobs[j];
        let mut r = Report::new("model_checking");
        let scen = json!({"part": "rosomaxa", "family": family, "node_size": node_size, "elite_size": elite_size, "policy": policy});
        let fallback = if policy == 0 { Fallback::Default } else { Fallback::Stream(policy) };
        let random: Arc<dyn Random> = Arc::new(ScriptedRandom::new(vec![], fallback));
        reseed(policy);
        install_policy(PlanPolicy::Sequential);
        let res = catch(|| -> Result<Vec<(String, String)>, String> {
            let env = Arc::new(Environment::new(random.clone(), None, Parallelism::new_with_cpus(1), Arc::new(|_| {}), false));
            let objective = Arc::new(VectorObjective::new(Arc::new(|d: &[f64]| d[0]), Arc::new(|d: &[f64]| d[1..].to_vec())));
            let config = RosomaxaConfig {
                initial_size: 4,
                selection_size: 4,
                elite_size,
                node_size,
                spread_factor: 0.75,
                distribution_factor: 0.9,
                rebalance_memory: 2,
                exploration_ratio: 0.9,
            };
            let mut pop = Rosomaxa::new(VectorRosomaxaContext, objective, env, config).map_err(|e| e.to_string())?;
            let mut errs = vec![];
            let mut i = 0usize;
            let mut mk = || {
                let w = stream(family, i);
                i += 1;
                // fitness decreases slowly so that newcomers stay comparable with the best known
                VectorSolution::new(vec![100. - i as f64, w[0], w[1]], 100. - i as f64, w)
            };
            let mut stats = HeuristicStatistics::default();
            for step in 0..ctx.tier.pick(24, 60) {
                if step % 3 == 2 {
                    pop.add_all(vec![mk(), mk()]);
                } else {
                    pop.add(mk());
                }
                stats.generation = step;
                stats.termination_estimate = (step as f64 / 100.).min(0.8);
                pop.on_generation(&stats);
                if let Ok(state) = NetworkState::try_from(&pop) {
                    let mut coords = HashSet::new();
                    for n in &state.nodes {
                        if !coords.insert(n.coordinate) {
                            errs.push(("duplicate-coordinate".to_string(), format!("{:?} at step {step}", n.coordinate)));
                        }
                        if n.weights.len() != 2 || n.weights.iter().any(|w| !w.is_finite()) {
                            errs.push(("weights".to_string(), format!("{:?} at step {step}", n.weights)));
                        }
                        if !n.mse.is_finite() || !n.unified_distance.is_finite() {
                            errs.push(("node-measure-not-finite".to_string(), format!("mse={} ud={} at step {step}", n.mse, n.unified_distance)));
                        }
                        // dump of the node's population: "[[f],[f],]" => number of individuals = number of '[' minus one
                        let individuals = n.dump.matches('[').count().saturating_sub(1);
                        if individuals > node_size {
                            errs.push(("node-capacity".to_string(), format!("{individuals} individuals in a node of capacity {node_size}: {}", n.dump)));
                        }
                    }
                    if !state.mse.is_finite() {
                        errs.push(("network-measure-not-finite".to_string(), format!("mse={}", state.mse)));
                    }
                }
                if pop.size() > elite_size || pop.ranked().count() > elite_size {
                    errs.push(("elite-bound".to_string(), format!("elite holds {} individuals, elite_size={elite_size} (node_size={node_size}) at step {step}", pop.size())));
                }
            }
            Ok(errs)
        });
        uninstall_plan();
        r.add_count("rosomaxa_streams", 1);
        r.add_count("transitions", ctx.tier.pick(24, 60));
        r.add_count("traces_validated_against_impl", 1);
        match res {
            Ok(Ok(errs)) => {
                let mut seen = HashSet::new();
                for (key, what) in errs {
                    if seen.insert(key.clone()) {
                        r.violation(Violation::new(format!("rosomaxa:{key}"), what, scen.clone()));
                    }
                }
            }
            Ok(Err(e)) => r.violation(Violation::new("rosomaxa:error", e, scen)),
            Err(p) => r.violation(Violation::new(format!("rosomaxa:panic@{}", panic_site(&p)), p, scen)),
        }
        r
    });
    for p in parts {
        report.merge(p);
    }
}

// ---------------------------------------------------------------------------------------------
// (C) VRP individuals: the map's input vectors

// ---------------------------------------------------------------------------------------------
// (D) compaction on every lattice shape (hook H6 places nodes at given coordinates)

/// Every set of `n` cells which contains (0,0) and is connected (4- or 8-neighbourhood), grown cell by cell.
fn shapes(max_cells: usize, diagonal: bool) -> Vec<Vec<(i32, i32)>> {
    let neigh: Vec<(i32, i32)> =
        if diagonal { vec![(1, 0), (-1, 0), (0, 1), (0, -1), (1, 1), (1, -1), (-1, 1), (-1, -1)] } else { vec![(1, 0), (-1, 0), (0, 1), (0, -1)] };
    let mut seen: HashSet<Vec<(i32, i32)>> = HashSet::new();
    let mut frontier: Vec<Vec<(i32, i32)>> = vec![vec![(0, 0)]];
    seen.insert(vec![(0, 0)]);
    let mut all = frontier.clone();
    for _ in 1..max_cells {
        let mut next = vec![];
        for shape in &frontier {
            for (x, y) in shape {
                for (dx, dy) in &neigh {
                    let c = (x + dx, y + dy);
                    if shape.contains(&c) {
                        continue;
                    }
                    let mut grown = shape.clone();
                    grown.push(c);
                    grown.sort();
                    if seen.insert(grown.clone()) {
                        next.push(grown);
                    }
                }
            }
        }
        all.extend(next.iter().cloned());
        frontier = next;
    }
    all
}

/// `loaded`: 0 = nodes as inserted (no error, data only in the initial nodes); 1 = every node holds one input near its
/// weights and an accumulated error just below the growing threshold; 2 = the same with an error far above it.
fn lattice_net(shape: &[(i32, i32)], loaded: u8) -> Result<Net, String> {
    let random: Arc<dyn Random> = Arc::new(ScriptedRandom::new(vec![], Fallback::Default));
    let config = NetworkConfig { node_size: 2, spread_factor: 0.5, distribution_factor: 0.5, learning_rate: 0.1, rebalance_memory: 10, has_initial_error: true };
    let initial: Vec<Inp> = (0..4).map(|i| Inp { w: vec![(i % 2) as f64, (i / 2) as f64] }).collect();
    let mut net: Net = Network::new(&(), initial, config, random, |cap| Factory { cap }).map_err(|e| e.to_string())?;
    let present: Vec<Coordinate> = net.get_coordinates().collect();
    for (x, y) in shape {
        net.verif_insert(&(), Coordinate(*x, *y), &[*x as f64 * 0.1, *y as f64 * 0.1]);
    }
    for c in present {
        if !shape.contains(&(c.0, c.1)) {
            net.verif_remove(&c);
        }
    }
    if loaded > 0 {
        // growing threshold of the configuration above: -dim * ln(spread)
        let threshold = -2. * (0.5f64).ln();
        for (x, y) in shape {
            let node = net.verif_node_mut(&Coordinate(*x, *y)).ok_or_else(|| "hook H7 does not find a placed node".to_string())?;
            node.error = if loaded == 1 { threshold * 0.999 } else { threshold * 10. };
            if node.storage.size() == 0 {
                node.storage.add(Inp { w: vec![*x as f64 * 0.1 + 0.03, *y as f64 * 0.1 - 0.02] });
            }
        }
    }
    Ok(net)
}

/// Judges compaction of one shape: returns findings.
fn judge_shape(shape: &[(i32, i32)], loaded: u8) -> Vec<(String, String)> {
    let mut errs = vec![];
    let built = catch(|| lattice_net(shape, loaded));
    let mut net = match built {
        Ok(Ok(n)) => n,
        Ok(Err(e)) => return vec![("lattice:cannot-build".into(), e)],
        Err(p) => return vec![(format!("lattice:panic@{}", panic_site(&p)), p)],
    };
    if net.size() != shape.len() {
        return vec![("lattice:harness".into(), format!("built {} nodes for a shape of {}", net.size(), shape.len()))];
    }
    // reference: which cells are decimated
    let (x_min, x_max) = (shape.iter().map(|c| c.0).min().unwrap(), shape.iter().map(|c| c.0).max().unwrap());
    let (y_min, y_max) = (shape.iter().map(|c| c.1).min().unwrap(), shape.iter().map(|c| c.1).max().unwrap());
    let (xd, yd) = match (x_max - x_min, y_max - y_min) {
        (x, y) if x > y => (3, 4),
        (x, y) if x < y => (4, 3),
        _ => (4, 4),
    };
    let kept: Vec<(i32, i32)> = shape.iter().copied().filter(|c| c.0 % xd != 0 && c.1 % yd != 0).collect();
    let expect = if kept.len() < 4 { shape.len() } else { kept.len() };
    match catch(|| {
        net.compact(&());
        net
    }) {
        Ok(net) => {
            let cfg = Cfg { spread: 0.5, distribution: 0.5, node_size: 2, rebalance: 10, initial_error: true, initial: 4 };
            for (k, w) in wf(&net, &cfg) {
                errs.push((format!("lattice:{k}"), w));
            }
            if net.size() < 4 && shape.len() >= 4 {
                errs.push(("lattice:fewer-than-four-nodes".into(), format!("{} nodes left of {}", net.size(), shape.len())));
            }
            if net.size() > shape.len() {
                errs.push(("lattice:compaction-grows".into(), format!("{} nodes after, {} before", net.size(), shape.len())));
            }
            if net.size() > expect {
                errs.push((
                    "lattice:compaction-adds-nodes".into(),
                    format!("{} nodes before, {} survive the decimation (steps {xd},{yd}), {} are there afterwards: compaction created nodes", shape.len(), kept.len(), net.size()),
                ));
            } else if net.size() != expect {
                errs.push((
                    "lattice:nodes-collapsed".into(),
                    format!("{} nodes before, {} survive the decimation (steps {xd},{yd}), {} are left: two survivors were mapped to one coordinate", shape.len(), kept.len(), net.size()),
                ));
            }
        }
        Err(p) => errs.push((format!("lattice:panic@{}", panic_site(&p)), p)),
    }
    errs
}

fn run_lattices(ctx: &RunCtx, report: &mut Report) {
    let mut all = shapes(ctx.tier.pick(8, 9), false);
    let mut seen: HashSet<Vec<(i32, i32)>> = all.iter().cloned().collect();
    for s in shapes(ctx.tier.pick(6, 7), true) {
        if seen.insert(s.clone()) {
            all.push(s);
        }
    }
    let chunk = 2000;
    let chunks: Vec<&[Vec<(i32, i32)>]> = all.chunks(chunk).collect();
    let parts = par_map(ctx.threads, chunks.len(), |i| {
        let mut r = Report::new("model_checking");
        let mut outcomes: HashSet<usize> = HashSet::new();
        for shape in chunks[i] {
            r.add_count("lattice_shapes", 1);
            for loaded in 0..3u8 {
                r.add_count("evaluations", 1);
                r.add_count("transitions", 1);
                r.add_count("lattice_compactions", 1);
                let errs = judge_shape(shape, loaded);
                outcomes.insert(errs.len());
                for (key, what) in errs {
                    r.violation(Violation::new(
                        format!("network:{key}"),
                        format!("shape {shape:?} (node load {loaded}): {what}"),
                        json!({"part": "lattice", "shape": shape, "loaded": loaded}),
                    ));
                }
            }
        }
        r
    });
    for p in parts {
        report.merge(p);
    }
    report.add_count("states", all.len() as u64);
}

fn run_vrp_weights(report: &mut Report) {
    use vrp_core::models::common::Footprint;
    use vrp_core::prelude::*;
    let env = Arc::new(Environment::new(
        Arc::new(DefaultRandom::new_repeatable()),
        None,
        Parallelism::new_with_cpus(1),
        Arc::new(|_| {}),
        false,
    ));
    // problems: (jobs, vehicles, capacity): capacity 0 makes everything unassignable => solution without tours
    let problems = [(3usize, 1usize, 10i32), (4, 2, 2), (2, 1, 0), (5, 3, 1)];
    let mut dims: HashSet<usize> = HashSet::new();
    for (pi, (jobs, vehicles, cap)) in problems.iter().enumerate() {
        let problem = simple_problem(*jobs, *vehicles, *cap, cvrp_goal);
        let footprint = Footprint::new(problem.as_ref());
        let mut individuals: Vec<(String, InsertionContext)> = vec![];
        individuals.push(("empty".into(), InsertionContext::new_empty(problem.clone(), env.clone())));
        individuals.push(("initial".into(), InsertionContext::new(problem.clone(), env.clone())));
        reseed(pi as u64);
        install_policy(PlanPolicy::Sequential);
        let solved = catch(|| {
            let config = VrpConfigBuilder::new(problem.clone()).set_environment(env.clone()).prebuild()?.with_max_generations(Some(2)).build()?;
            Solver::new(problem.clone(), config).solve()
        });
        uninstall_plan();
        match solved {
            Ok(Ok(solution)) => individuals.push(("solved".into(), InsertionContext::new_from_solution(problem.clone(), (solution, None), env.clone()))),
            Ok(Err(e)) => report.error(format!("cannot solve simple problem {pi}: {e}")),
            Err(p) => report.violation(Violation::new(format!("vrp-weights:solve-panic@{}", panic_site(&p)), p, json!({"part": "vrp-weights", "problem": pi}))),
        }
        for (name, mut ind) in individuals {
            report.add_count("vrp_individuals", 1);
            report.add_count("transitions", 1);
            let routes = ind.solution.routes.len();
            let scen = json!({"part": "vrp-weights", "problem": [jobs, vehicles, cap], "individual": name, "routes": routes});
            match catch(|| {
                ind.on_init(&footprint);
                ind.weights().to_vec()
            }) {
                Ok(w) => {
                    dims.insert(w.len());
                    if w.iter().any(|x| !x.is_finite()) {
                        report.violation(Violation::new(
                            if routes == 0 { "vrp-weights:not-finite:no-tours" } else { "vrp-weights:not-finite" },
                            format!("weights {w:?} of individual '{name}' with {routes} tours"),
                            scen,
                        ));
                    }
                }
                Err(p) => report.violation(Violation::new(format!("vrp-weights:panic@{}", panic_site(&p)), p, scen)),
            }
        }
    }
    if dims.len() > 1 {
        report.violation(Violation::new("vrp-weights:dimension", format!("weight vectors of different dimensions {dims:?}"), json!({"part": "vrp-weights"})));
    }
}

pub fn run(ctx: &RunCtx) -> Report {
    let mut report = Report::new("model_checking");
    run_networks(ctx, &mut report);
    run_rosomaxa(ctx, &mut report);
    run_vrp_weights(&mut report);
    run_lattices(ctx, &mut report);
    report.set("exhaustive", true);
    report.set(
        "rule",
        "(A) every history of length 4/5 over {store_batch(1..3), smooth(1), compact, set_learning_rate(0.1|1.0)} (first op a store) x 5 input families \
         (clusters, duplicates, far outlier, constant, collinear) x 32/64 network configurations x 2/3 random policies on the real Network; well-formedness \
         judged after construction and after every step; states = distinct final coordinate sets; (B) streams of 24/60 steps through the real Rosomaxa, \
         observed via NetworkState; (C) weight vectors of real VRP individuals incl. the solution without tours; \
         (D) compaction of EVERY lattice shape: all 4-connected cell sets containing (0,0) of <= 8/9 cells and all 8-connected ones of <= 6/7 cells, built on the \
         real Network through hook H6, compacted by the real `compact`: well-formed, never below four nodes, never growing, no two survivors on one coordinate",
    );
    report.assume("harness storage keeps the newest `capacity` inputs; inputs are 2-dimensional");
    report
}

pub fn replay(ctx: &RunCtx, scenario: &Value) -> Result<Vec<Violation>, String> {
    let mut out = vec![];
    match scenario["part"].as_str().unwrap_or("") {
        "network" => {
            let c = scenario["cfg"].as_array().ok_or("cfg")?;
            let cfg = Cfg {
                spread: c[0].as_f64().ok_or("spread")?,
                distribution: c[1].as_f64().ok_or("distribution")?,
                node_size: c[2].as_u64().ok_or("node")? as usize,
                rebalance: c[3].as_u64().ok_or("rebalance")? as usize,
                initial_error: c[4].as_bool().ok_or("ie")?,
                initial: c[5].as_u64().ok_or("initial")? as usize,
            };
            let history: Vec<Op> = scenario["history"].as_array().ok_or("history")?.iter().filter_map(Op::from_json).collect();
            let family = scenario["family"].as_u64().ok_or("family")? as usize;
            let policy = scenario["policy"].as_u64().unwrap_or(0);
            match replay_net(family, &cfg, &history, policy) {
                Ok((errs, _, _)) => {
                    for (key, what) in errs {
                        out.push(Violation::new(format!("network:{key}"), what, scenario.clone()));
                    }
                }
                Err(e) => out.push(Violation::new("network:panic", e, scenario.clone())),
            }
        }
        "lattice" => {
            let shape: Vec<(i32, i32)> = scenario["shape"]
                .as_array()
                .ok_or("shape")?
                .iter()
                .filter_map(|c| Some((c[0].as_i64()? as i32, c[1].as_i64()? as i32)))
                .collect();
            let loaded = scenario["loaded"].as_u64().unwrap_or(0) as u8;
            for (key, what) in judge_shape(&shape, loaded) {
                out.push(Violation::new(format!("network:{key}"), what, scenario.clone()));
            }
        }
        "rosomaxa" => {
            let mut r = Report::new("model_checking");
            run_rosomaxa(ctx, &mut r);
            out.extend(r.violations);
        }
        _ => {
            let mut r = Report::new("model_checking");
            run_vrp_weights(&mut r);
            out.extend(r.violations);
        }
    }
    Ok(out)
}
