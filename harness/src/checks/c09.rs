//! C09 — order laws of solution comparison and of insertion-cost comparison.
//!
//! Bounded-exhaustive enumeration: all pairs/triples of cost vectors over a float alphabet; all pairs/triples of
//! solution contexts whose fitness vectors range over an alphabet, for goals of 1-3 single layers and for goals
//! with a multi-objective (dominance) layer as assembled by the pragmatic goal reader.

use crate::corekit::*;
use crate::*;
use rosomaxa::evolution::objectives::dominance_order;
use rosomaxa::prelude::*;
use serde_json::{Value, json};
use std::cmp::Ordering;
use std::sync::Arc;
use vrp_core::construction::heuristics::{InsertionContext, InsertionCost, MoveContext};
use vrp_core::models::{FeatureObjective, Goal, GoalBuilder};
use vrp_core::prelude::*;

fn ord_name(o: Ordering) -> &'static str {
    match o {
        Ordering::Less => "Less",
        Ordering::Equal => "Equal",
        Ordering::Greater => "Greater",
    }
}

// ---------------------------------------------------------------------------------------------
// (a) InsertionCost

fn cost_vectors(alphabet: &[f64], max_len: usize) -> Vec<Vec<f64>> {
    let mut out = vec![vec![]];
    let mut layer = vec![vec![]];
    for _ in 0..max_len {
        let mut next = vec![];
        for v in &layer {
            for a in alphabet {
                let mut w: Vec<f64> = v.clone();
                w.push(*a);
                next.push(w);
            }
        }
        out.extend(next.iter().cloned());
        layer = next;
    }
    out
}

/// Three-valued reference: numeric lexicographic order over zero-padded vectors. Returns None when the decision
/// would depend on how +0 and -0 compare (the property does not say), Some(order) otherwise.
fn lex_reference(x: &[f64], y: &[f64]) -> Option<Ordering> {
    let n = x.len().max(y.len());
    for i in 0..n {
        let a = x.get(i).copied().unwrap_or(0.);
        let b = y.get(i).copied().unwrap_or(0.);
        if a == 0. && b == 0. {
            if a.is_sign_negative() != b.is_sign_negative() {
                return None;
            }
            continue;
        }
        if a < b {
            return Some(Ordering::Less);
        }
        if a > b {
            return Some(Ordering::Greater);
        }
    }
    Some(Ordering::Equal)
}

fn run_insertion_cost(ctx: &RunCtx, report: &mut Report) {
    let alphabet = [-1., -0.0, 0.0, 0.5, 1., 2.];
    let max_len = ctx.tier.pick(3, 4);
    let mut vectors = cost_vectors(&alphabet, max_len);
    // long vectors (more components than the inline capacity of the cost type): at most two non-zero entries anywhere
    for len in 5..=ctx.tier.pick(8, 9) {
        vectors.push(vec![0.; len]);
        let vals = [1., 2., -1.];
        for i in 0..len {
            for a in vals {
                let mut v = vec![0.; len];
                v[i] = a;
                vectors.push(v.clone());
                for j in i + 1..len {
                    for b in vals {
                        let mut w = v.clone();
                        w[j] = b;
                        vectors.push(w);
                    }
                }
            }
        }
    }
    // components which differ by less than machine epsilon (neighbouring floats, 0 vs 1e-17): order laws only, sums of such
    // values are not exact so the arithmetic laws are not judged on them
    let n_exact = vectors.len();
    let near = [0.0f64, 1e-17, 0.25, f64::from_bits(0.25f64.to_bits() + 1), 0.5, f64::from_bits(0.5f64.to_bits() + 1), 1.0 - f64::EPSILON / 2., 1.0];
    for a in near {
        vectors.push(vec![a]);
        for b in [1., 5., -1.] {
            vectors.push(vec![a, b]);
        }
    }
    let costs: Vec<InsertionCost> = vectors.iter().map(|v| InsertionCost::new(v)).collect();
    let n = vectors.len();
    report.set("cost_vectors", n as u64);

    // pairs: reflexivity, antisymmetry, Eq/PartialOrd consistency, agreement with numeric lexicographic order, add/sub inverse
    let pair_results = par_map(ctx.threads, n, |i| {
        let mut v: Vec<Violation> = vec![];
        let mut evals = 0u64;
        let mut outcomes = [0u64; 3];
        for j in 0..n {
            evals += 1;
            let r = catch(|| {
                let (x, y) = (&costs[i], &costs[j]);
                let c = x.cmp(y);
                let mut errs = vec![];
                if i == j && c != Ordering::Equal {
                    errs.push(("cost:reflexive", format!("cmp(x,x)={}", ord_name(c))));
                }
                if y.cmp(x) != c.reverse() {
                    errs.push(("cost:antisymmetric", format!("cmp(x,y)={} cmp(y,x)={}", ord_name(c), ord_name(y.cmp(x)))));
                }
                if (x == y) != (c == Ordering::Equal) {
                    errs.push(("cost:eq-vs-ord", format!("eq={} cmp={}", x == y, ord_name(c))));
                }
                if x.partial_cmp(y) != Some(c) {
                    errs.push(("cost:partial-vs-ord", "partial_cmp != Some(cmp)".to_string()));
                }
                if let Some(expected) = lex_reference(&vectors[i], &vectors[j]) {
                    if expected != c {
                        errs.push(("cost:lexicographic", format!("cmp={} numeric-lexicographic={}", ord_name(c), ord_name(expected))));
                    }
                }
                if i >= n_exact || j >= n_exact {
                    return (c, errs);
                }
                // (x + y) - y == x up to the sign of zero; all four operator forms
                let sum_then_sub: Vec<f64> = ((x + y) - y).iter().collect();
                let sum2: Vec<f64> = ((x.clone() + y.clone()) - y.clone()).iter().collect();
                let sub_then_add: Vec<f64> = ((x - y) + y).iter().collect();
                for (name, got) in [("(x+y)-y", &sum_then_sub), ("owned (x+y)-y", &sum2), ("(x-y)+y", &sub_then_add)] {
                    let m = got.len().max(vectors[i].len());
                    let same = (0..m).all(|k| got.get(k).copied().unwrap_or(0.) == vectors[i].get(k).copied().unwrap_or(0.));
                    if !same || got.len() != vectors[i].len().max(vectors[j].len()) {
                        errs.push(("cost:add-sub-inverse", format!("{name} = {got:?}")));
                    }
                }
                // element-wise addition against plain arithmetic
                let sum: Vec<f64> = (x + y).iter().collect();
                let m = vectors[i].len().max(vectors[j].len());
                let exp: Vec<f64> =
                    (0..m).map(|k| vectors[i].get(k).copied().unwrap_or(0.) + vectors[j].get(k).copied().unwrap_or(0.)).collect();
                if sum != exp {
                    errs.push(("cost:add-elementwise", format!("x+y = {sum:?}, expected {exp:?}")));
                }
                (c, errs)
            });
            match r {
                Ok((c, errs)) => {
                    outcomes[c as i8 as usize + 1 - 0] += 1;
                    for (key, what) in errs {
                        v.push(Violation::new(key, what, json!({"part": "cost", "x": vectors[i], "y": vectors[j]})));
                    }
                }
                Err(p) => v.push(Violation::new(
                    format!("cost:panic@{}", panic_site(&p)),
                    p,
                    json!({"part": "cost", "x": vectors[i], "y": vectors[j]}),
                )),
            }
        }
        (v, evals, outcomes)
    });
    let mut outcomes = [0u64; 3];
    for (v, e, o) in pair_results {
        report.violations.extend(v);
        report.add_count("evaluations", e);
        report.add_count("cost_pairs", e);
        for k in 0..3 {
            outcomes[k] += o[k];
        }
    }
    report.set("cost_pair_outcomes_less_equal_greater", json!(outcomes));

    // triples: transitivity of <= (which together with totality gives a total preorder)
    let cmp_table: Vec<Vec<i8>> = (0..n).map(|i| (0..n).map(|j| costs[i].cmp(&costs[j]) as i8).collect()).collect();
    let triple_results = par_map(ctx.threads, n, |i| {
        let mut v = vec![];
        let mut evals = 0u64;
        for j in 0..n {
            if cmp_table[i][j] > 0 {
                continue;
            }
            for k in 0..n {
                evals += 1;
                if cmp_table[j][k] <= 0 && cmp_table[i][k] > 0 {
                    v.push(Violation::new(
                        "cost:transitive",
                        "x<=y, y<=z but x>z",
                        json!({"part": "cost3", "x": vectors[i], "y": vectors[j], "z": vectors[k]}),
                    ));
                }
                // equal elements are interchangeable
                if cmp_table[i][j] == 0 && cmp_table[i][k] != cmp_table[j][k] {
                    v.push(Violation::new(
                        "cost:equal-not-congruent",
                        "x==y but cmp(x,z) != cmp(y,z)",
                        json!({"part": "cost3", "x": vectors[i], "y": vectors[j], "z": vectors[k]}),
                    ));
                }
            }
        }
        (v, evals)
    });
    for (v, e) in triple_results {
        report.violations.extend(v.into_iter().take(20));
        report.add_count("evaluations", e);
        report.add_count("cost_triples", e);
    }
    report.sample(json!({"cost_pair": [vectors[n / 2], vectors[n / 3]], "cmp": ord_name(costs[n / 2].cmp(&costs[n / 3]))}));
}

// ---------------------------------------------------------------------------------------------
// (b) goals over scripted fitness vectors

struct FitKey;

struct ScriptedObjective(usize);

impl FeatureObjective for ScriptedObjective {
    fn fitness(&self, solution: &InsertionContext) -> Cost {
        solution.solution.state.get_value::<FitKey, Vec<f64>>().and_then(|v| v.get(self.0).copied()).unwrap_or(0.)
    }
    fn estimate(&self, _: &MoveContext<'_>) -> Cost {
        0.
    }
}

#[derive(Clone, Debug)]
enum Layer {
    Single(usize),
    /// dominance layer over given objective indices, as assembled by the pragmatic goal reader
    Multi(Vec<usize>),
}

fn build_goal(layers: &[Layer]) -> Goal {
    let mut b = GoalBuilder::default();
    for l in layers {
        b = match l {
            Layer::Single(i) => b.add_single(Arc::new(ScriptedObjective(*i))),
            Layer::Multi(idx) => {
                let objectives: Vec<Arc<dyn FeatureObjective>> =
                    idx.iter().map(|i| Arc::new(ScriptedObjective(*i)) as Arc<dyn FeatureObjective>).collect();
                b.add_multi(
                    &objectives,
                    |os, a, b| dominance_order(a, b, os.iter().map(|o| |a, b| o.fitness(a).total_cmp(&o.fitness(b)))),
                    |os, move_ctx| os.iter().map(|o| o.estimate(move_ctx)).sum(),
                )
            }
        };
    }
    b.build().unwrap()
}

fn fitness_reference(a: &[f64], b: &[f64]) -> Option<Ordering> {
    // lexicographic with +0 == -0; NaN is outside of the reference
    for (x, y) in a.iter().zip(b.iter()) {
        if x.is_nan() || y.is_nan() {
            return None;
        }
        if x < y {
            return Some(Ordering::Less);
        }
        if x > y {
            return Some(Ordering::Greater);
        }
    }
    Some(Ordering::Equal)
}

fn run_goals(ctx: &RunCtx, report: &mut Report) {
    let problem = simple_problem(1, 1, 1, cvrp_goal);
    let env = Arc::new(Environment::new(
        Arc::new(DefaultRandom::new_repeatable()),
        None,
        rosomaxa::utils::Parallelism::new_with_cpus(1),
        Arc::new(|_| {}),
        false,
    ));
    // includes neighbours which differ by less than machine epsilon (must still be ordered)
    let next_up = |x: f64| f64::from_bits(x.to_bits() + 1);
    let full: Vec<f64> = vec![-1., -0.0, 0.0, 1.5e-16, 3e-16, 0.5, next_up(0.5), 1., next_up(1.), 2., f64::MAX, f64::MIN_POSITIVE, f64::NAN];
    let reduced: Vec<f64> = ctx.tier.pick(vec![-1., -0.0, 0.0, 1.5e-16, 0.5, next_up(0.5), f64::NAN], vec![-1., -0.0, 0.0, 1.5e-16, 3e-16, 0.5, next_up(0.5), 1., f64::MAX, f64::NAN]);
    let configs: Vec<(Vec<Layer>, usize)> = vec![
        (vec![Layer::Single(0)], 1),
        (vec![Layer::Single(0), Layer::Single(1)], 2),
        (vec![Layer::Single(0), Layer::Single(1), Layer::Single(2)], 3),
        (vec![Layer::Multi(vec![0, 1])], 2),
        (vec![Layer::Single(0), Layer::Multi(vec![1, 2])], 3),
        (vec![Layer::Multi(vec![0, 1]), Layer::Single(2)], 3),
        // dominance layers of three and four objectives: conflicts which split 2:1 and 3:1 exist only there
        (vec![Layer::Multi(vec![0, 1, 2])], 3),
        (vec![Layer::Single(0), Layer::Multi(vec![1, 2, 3])], 4),
        (vec![Layer::Multi(vec![0, 1, 2, 3])], 4),
    ];
    // four dimensions: a small alphabet (the table is quadratic in alphabet^dims)
    let tiny: Vec<f64> = vec![-0.0, 0.0, 1., 2.];
    for (layers, dims) in configs {
        let single_only = layers.iter().all(|l| matches!(l, Layer::Single(_)));
        let goal = build_goal(&layers);
        let alphabet = if dims <= 2 { full.clone() } else if dims == 3 { reduced.clone() } else { tiny.clone() };
        let vectors: Vec<Vec<f64>> = {
            let mut out = vec![];
            product(&vec![alphabet.len(); dims], |idx| out.push(idx.iter().map(|i| alphabet[*i]).collect()));
            out
        };
        let contexts: Vec<InsertionContext> = vectors
            .iter()
            .map(|v| {
                let mut c = InsertionContext::new_empty(problem.clone(), env.clone());
                c.solution.state.set_value::<FitKey, Vec<f64>>(v.clone());
                c
            })
            .collect();
        let n = contexts.len();
        let table: Vec<Vec<i8>> = match catch(|| {
            (0..n).map(|i| (0..n).map(|j| goal.total_order(&contexts[i], &contexts[j]) as i8).collect()).collect()
        }) {
            Ok(t) => t,
            Err(p) => {
                report.violation(Violation::new(format!("goal:panic@{}", panic_site(&p)), p, json!({"part": "goal", "layers": format!("{layers:?}")})));
                continue;
            }
        };
        let scen = |i: usize, j: usize, k: Option<usize>| {
            json!({"part": "goal", "layers": format!("{layers:?}"), "a": fmt_vec(&vectors[i]), "b": fmt_vec(&vectors[j]), "c": k.map(|k| fmt_vec(&vectors[k]))})
        };
        let mut outcomes = [0u64; 3];
        for i in 0..n {
            // fitness() must report the vector the order is defined on
            let fit: Vec<f64> = goal.fitness(&contexts[i]).collect();
            let same = fit.len() == vectors[i].len() && fit.iter().zip(vectors[i].iter()).all(|(a, b)| a.to_bits() == b.to_bits());
            if !same {
                report.violation(Violation::new("goal:fitness-vector", format!("fitness() = {fit:?}"), scen(i, i, None)));
            }
            for j in 0..n {
                report.add_count("evaluations", 1);
                report.add_count("goal_pairs", 1);
                outcomes[(table[i][j] + 1) as usize] += 1;
                if i == j && table[i][j] != 0 {
                    report.violation(Violation::new("goal:reflexive", "cmp(a,a) != Equal", scen(i, j, None)));
                }
                if table[j][i] != -table[i][j] {
                    report.violation(Violation::new("goal:antisymmetric", format!("cmp(a,b)={} cmp(b,a)={}", table[i][j], table[j][i]), scen(i, j, None)));
                }
                if single_only {
                    if let Some(expected) = fitness_reference(&vectors[i], &vectors[j]) {
                        if expected as i8 != table[i][j] {
                            report.violation(Violation::new(
                                "goal:lexicographic",
                                format!("cmp={} but lexicographic fitness order={}", table[i][j], expected as i8),
                                scen(i, j, None),
                            ));
                        }
                    }
                }
            }
        }
        if single_only {
            let mut bad = 0;
            for i in 0..n {
                for j in 0..n {
                    if table[i][j] > 0 {
                        continue;
                    }
                    for k in 0..n {
                        report.add_count("goal_triples", 1);
                        if table[j][k] <= 0 && table[i][k] > 0 {
                            bad += 1;
                            if bad <= 5 {
                                report.violation(Violation::new("goal:transitive", "a<=b, b<=c but a>c", scen(i, j, Some(k))));
                            }
                        }
                    }
                }
            }
            report.add_count("evaluations", (n * n * n) as u64);
        }
        report.sample(json!({"goal_layers": format!("{layers:?}"), "contexts": n, "outcomes_less_equal_greater": outcomes}));
        if outcomes.iter().filter(|o| **o > 0).count() < 3 {
            report.error(format!("vacuous goal comparison for {layers:?}: outcomes {outcomes:?}"));
        }
    }
}

fn fmt_vec(v: &[f64]) -> Vec<String> {
    v.iter().map(|x| format!("{x:?}")).collect()
}

pub fn run(ctx: &RunCtx) -> Report {
    let mut report = Report::new("exploration");
    run_insertion_cost(ctx, &mut report);
    run_goals(ctx, &mut report);
    super::c09_real::run_real_goals(ctx, &mut report);
    let pairs = report.get_count("cost_pairs") + report.get_count("goal_pairs") + report.get_count("real_goal_pairs");
    report.set("distinct_nontrivial", pairs);
    report.set("exhaustive", true);
    report.set(
        "rule",
        "every ordered pair (and, for transitivity, every triple) of cost vectors of length 0..L over {-1,-0,+0,0.5,1,2}; every ordered pair/triple \
         of solution contexts with fitness vectors over the float alphabet for 6 goal shapes (1-3 single layers; dominance layers as built by the \
         pragmatic reader); every ordered pair of real solver states under real pragmatic goals; a pair is distinct by construction (enumerated product)",
    );
    report.assume("float alphabets are finite; NaN fitness is checked for order laws only, not against the lexicographic reference");
    report.assume("how +0/-0 compare inside InsertionCost is left open by the property: pairs whose decision depends on it are only checked for order laws");
    report
}

pub fn replay(_ctx: &RunCtx, scenario: &Value) -> Result<Vec<Violation>, String> {
    // scenarios are tiny: recompute the named pair/triple
    let part = scenario["part"].as_str().unwrap_or("");
    let mut out = vec![];
    let f = |v: &Value| -> Vec<f64> {
        v.as_array()
            .map(|a| {
                a.iter()
                    .map(|x| match x {
                        Value::String(s) => match s.as_str() {
                            "NaN" => f64::NAN,
                            "inf" => f64::INFINITY,
                            "-inf" => f64::NEG_INFINITY,
                            s => s.parse().unwrap_or(f64::NAN),
                        },
                        x => x.as_f64().unwrap_or(f64::NAN),
                    })
                    .collect()
            })
            .unwrap_or_default()
    };
    match part {
        "cost" | "cost3" => {
            let (x, y) = (f(&scenario["x"]), f(&scenario["y"]));
            let (cx, cy) = (InsertionCost::new(&x), InsertionCost::new(&y));
            let c = cx.cmp(&cy);
            if cy.cmp(&cx) != c.reverse() {
                out.push(Violation::new("cost:antisymmetric", "reproduced", scenario.clone()));
            }
            if let Some(e) = lex_reference(&x, &y) {
                if e != c {
                    out.push(Violation::new("cost:lexicographic", "reproduced", scenario.clone()));
                }
            }
            let back: Vec<f64> = ((&cx + &cy) - &cy).iter().collect();
            let m = back.len().max(x.len());
            if !(0..m).all(|k| back.get(k).copied().unwrap_or(0.) == x.get(k).copied().unwrap_or(0.)) {
                out.push(Violation::new("cost:add-sub-inverse", "reproduced", scenario.clone()));
            }
            if part == "cost3" {
                let z = f(&scenario["z"]);
                let cz = InsertionCost::new(&z);
                if cx <= cy && cy <= cz && cx > cz {
                    out.push(Violation::new("cost:transitive", "reproduced", scenario.clone()));
                }
            }
        }
        _ => {
            let mut r = Report::new("exploration");
            let ctx = RunCtx { id: "C09".into(), tier: Tier::Quick, seed: 0, threads: 4 };
            run_goals(&ctx, &mut r);
            out.extend(r.violations);
        }
    }
    Ok(out)
}
