//! C17 — embedded optimisation and clustering algorithms keep their contracts.
//!
//! LKH: every symmetric integer matrix over a small alphabet (n <= 5) and Euclidean grids, every start permutation;
//! DBSCAN: every subset of a 3x3 grid (+ duplicates), eps x min_pts, every presentation order for small sets;
//! k-medoids: every subset of <= 7 grid points, hierarchical levels 1-3 and flat k = 1..3, under every split plan
//! policy of the parallel wrappers.

use super::Extra;
use crate::env::*;
use crate::*;
use serde_json::{Value, json};
use std::collections::{HashMap, HashSet};
use std::sync::atomic::{AtomicU64, Ordering};
use vrp_core::algorithms::clustering::dbscan::create_clusters;
use vrp_core::algorithms::clustering::kmedoids::{Point, create_hierarchical_kmedoids, create_kmedoids};
use vrp_core::algorithms::lkh::{AdjacencySpec, Edge, Node, lkh_optimize};

// ---------------------------------------------------------------------------------------------
// LKH

struct Adjacency<'a> {
    n: usize,
    costs: &'a [f64],
    neighbours: Vec<Vec<Node>>,
    calls: &'a AtomicU64,
    budget: u64,
}

impl<'a> Adjacency<'a> {
    fn new(n: usize, costs: &'a [f64], calls: &'a AtomicU64, budget: u64) -> Self {
        // as the library's own caller does: all other nodes sorted by cost
        let neighbours = (0..n)
            .map(|i| {
                let mut v: Vec<(usize, f64)> = (0..n).filter(|j| *j != i).map(|j| (j, costs[i * n + j])).collect();
                v.sort_by(|a, b| a.1.total_cmp(&b.1));
                v.into_iter().map(|(j, _)| j).collect()
            })
            .collect();
        Self { n, costs, neighbours, calls, budget }
    }
}

impl AdjacencySpec for Adjacency<'_> {
    fn cost(&self, edge: &Edge) -> f64 {
        if self.calls.fetch_add(1, Ordering::Relaxed) > self.budget {
            panic!("LKH step budget exhausted (termination horizon)");
        }
        self.costs[edge.0 * self.n + edge.1]
    }
    fn neighbours(&self, node: Node) -> &[Node] {
        &self.neighbours[node]
    }
}

fn tour_cost(n: usize, costs: &[f64], path: &[usize]) -> f64 {
    (0..path.len()).map(|i| costs[path[i] * n + path[(i + 1) % path.len()]]).sum()
}

fn check_lkh(n: usize, costs: &[f64], start: &[usize]) -> Vec<(String, String)> {
    let calls = AtomicU64::new(0);
    let adjacency = Adjacency::new(n, costs, &calls, 2_000_000);
    let mut errs = vec![];
    match catch(|| lkh_optimize(adjacency, start.to_vec())) {
        Err(p) => {
            if p.contains("budget exhausted") {
                errs.push(("lkh:no-termination".to_string(), p));
            } else {
                errs.push((format!("lkh:panic@{}", panic_site(&p)), p));
            }
        }
        Ok(paths) => {
            if paths.is_empty() {
                errs.push(("lkh:empty-result".into(), "no path returned".into()));
            }
            let input_cost = tour_cost(n, costs, start);
            let mut sorted_in = start.to_vec();
            sorted_in.sort();
            for path in &paths {
                let mut sorted = path.clone();
                sorted.sort();
                if sorted != sorted_in {
                    errs.push(("lkh:not-a-permutation".into(), format!("{path:?} is not a permutation of {start:?}")));
                    continue;
                }
                if path.first() != start.first() {
                    errs.push(("lkh:start-node-changed".into(), format!("{start:?} -> {path:?}")));
                }
                let c = tour_cost(n, costs, path);
                if c > input_cost + 1e-9 {
                    errs.push(("lkh:cost-increased".into(), format!("{start:?} (cost {input_cost}) -> {path:?} (cost {c})")));
                }
            }
        }
    }
    errs
}

fn symmetric_matrices(n: usize, alphabet: &[f64]) -> Vec<Vec<f64>> {
    let pairs: Vec<(usize, usize)> = (0..n).flat_map(|i| (i + 1..n).map(move |j| (i, j))).collect();
    let mut out = vec![];
    product(&vec![alphabet.len(); pairs.len()], |idx| {
        let mut m = vec![0.; n * n];
        for (k, (i, j)) in pairs.iter().enumerate() {
            m[i * n + j] = alphabet[idx[k]];
            m[j * n + i] = alphabet[idx[k]];
        }
        out.push(m);
    });
    out
}

fn euclid(points: &[(f64, f64)]) -> Vec<f64> {
    let n = points.len();
    let mut m = vec![0.; n * n];
    for i in 0..n {
        for j in 0..n {
            let (dx, dy) = (points[i].0 - points[j].0, points[i].1 - points[j].1);
            m[i * n + j] = (dx * dx + dy * dy).sqrt();
        }
    }
    m
}

fn all_perms(n: usize) -> Vec<Vec<usize>> {
    let mut out = vec![];
    let mut cur: Vec<usize> = (0..n).collect();
    fn heap(k: usize, cur: &mut Vec<usize>, out: &mut Vec<Vec<usize>>) {
        if k == 1 {
            out.push(cur.clone());
            return;
        }
        heap(k - 1, cur, out);
        for i in 0..k - 1 {
            if k % 2 == 0 {
                cur.swap(i, k - 1);
            } else {
                cur.swap(0, k - 1);
            }
            heap(k - 1, cur, out);
        }
    }
    if n > 0 {
        heap(n, &mut cur, &mut out);
    } else {
        out.push(vec![]);
    }
    out.sort();
    out
}

/// The list of LKH instances: (n, matrix).
fn lkh_instances(tier: Tier) -> Vec<(usize, Vec<f64>)> {
    let mut out = vec![];
    let alphabet = [1., 2., 3., 5.];
    for n in 1..=tier.pick(4, 5) {
        for m in symmetric_matrices(n, &alphabet) {
            out.push((n, m));
        }
    }
    // quick tier: a slice of the n=5 matrices (every 16th)
    if tier.is_quick() {
        for (i, m) in symmetric_matrices(5, &alphabet).into_iter().enumerate() {
            if i % 64 == 0 {
                out.push((5, m));
            }
        }
    }
    // Euclidean grids
    let grids: Vec<Vec<(f64, f64)>> = vec![
        vec![(0., 0.), (1., 0.), (2., 0.), (0., 1.), (1., 1.), (2., 1.)],
        vec![(0., 0.), (3., 0.), (3., 4.), (0., 4.), (1., 2.), (2., 2.)],
        vec![(0., 0.), (1., 0.), (2., 0.), (3., 0.), (4., 0.), (5., 0.)],
        vec![(0., 0.), (0., 0.), (1., 1.), (1., 1.), (2., 0.), (2., 0.)],
        vec![(0., 0.), (2., 1.), (4., 0.), (4., 3.), (2., 4.), (0., 3.), (2., 2.)],
        vec![(0., 0.), (1., 0.), (2., 0.), (0., 1.), (1., 1.), (2., 1.), (1., 2.)],
    ];
    for g in grids {
        if g.len() <= tier.pick(6, 7) {
            out.push((g.len(), euclid(&g)));
        }
    }
    // every 5-tuple (duplicates allowed) over a few integer coordinates: irrational distances with exact ties
    let coords = [(0., 0.), (3., 0.), (0., 1.), (2., 3.)];
    product(&[coords.len(); 5], |idx| {
        // skip tuples which are just a relabelling of an earlier one: first point is always coords[0]-or-later sorted start
        if idx[0] != 0 {
            return;
        }
        let pts: Vec<(f64, f64)> = idx.iter().map(|i| coords[*i]).collect();
        out.push((5, euclid(&pts)));
    });
    out
}

fn lkh_shard(ctx: &RunCtx, shard: usize, of: usize) -> Report {
    let mut report = Report::new("exploration");
    let instances = lkh_instances(ctx.tier);
    let mut outcomes: HashSet<String> = HashSet::new();
    for (idx, (n, m)) in instances.iter().enumerate() {
        if idx % of != shard {
            continue;
        }
        report.add_count("lkh_matrices", 1);
        for start in all_perms(*n) {
            report.add_count("lkh_runs", 1);
            report.add_count("evaluations", 1);
            let errs = check_lkh(*n, m, &start);
            if errs.is_empty() {
                if outcomes.len() < 1000 {
                    outcomes.insert(format!("{start:?}"));
                }
            }
            for (key, what) in errs {
                report.violation(Violation::new(key, what, json!({"part": "lkh", "n": n, "matrix": m, "start": start})));
            }
        }
        if idx % 500 == 0 {
            report.sample(json!({"lkh_matrix": m, "n": n}));
        }
    }
    report
}

// ---------------------------------------------------------------------------------------------
// DBSCAN

#[derive(Clone, Debug, Hash, PartialEq, Eq)]
struct Pt {
    id: usize,
    x: i32,
    y: i32,
}

fn dist(a: &Pt, b: &Pt) -> f64 {
    (((a.x - b.x).pow(2) + (a.y - b.y).pow(2)) as f64).sqrt()
}

fn check_dbscan(points: &[Pt], order: &[usize], eps: f64, min_pts: usize) -> Vec<(String, String)> {
    let mut errs = vec![];
    let presented: Vec<&Pt> = order.iter().map(|i| &points[*i]).collect();
    let result = catch(|| {
        let clusters = create_clusters(presented.iter().copied(), min_pts, |p: &Pt| points.iter().filter(move |q| dist(p, q) <= eps));
        clusters.into_iter().map(|c| c.into_iter().map(|p| p.id).collect::<Vec<_>>()).collect::<Vec<_>>()
    });
    let clusters = match result {
        Ok(c) => c,
        Err(p) => return vec![(format!("dbscan:panic@{}", panic_site(&p)), p)],
    };
    // reference definitions
    let n = points.len();
    let neigh: Vec<Vec<usize>> = (0..n).map(|i| (0..n).filter(|j| dist(&points[i], &points[*j]) <= eps).collect()).collect();
    let core: Vec<bool> = (0..n).map(|i| neigh[i].len() >= min_pts).collect();
    let reach = |c: usize| -> HashSet<usize> {
        // density-reachable from core point c: expand through core points only
        let mut seen = HashSet::from([c]);
        let mut stack = vec![c];
        while let Some(p) = stack.pop() {
            if !core[p] {
                continue;
            }
            for q in &neigh[p] {
                if seen.insert(*q) {
                    stack.push(*q);
                }
            }
        }
        seen
    };
    let id_to_idx: HashMap<usize, usize> = points.iter().enumerate().map(|(i, p)| (p.id, i)).collect();
    let mut owner: HashMap<usize, usize> = HashMap::new();
    for (ci, cluster) in clusters.iter().enumerate() {
        let idxs: Vec<usize> = cluster.iter().filter_map(|id| id_to_idx.get(id).copied()).collect();
        if idxs.len() != cluster.len() {
            errs.push(("dbscan:unknown-point".into(), format!("cluster {ci} contains unknown point: {cluster:?}")));
        }
        for i in &idxs {
            if let Some(prev) = owner.insert(*i, ci) {
                errs.push(("dbscan:not-disjoint".into(), format!("point {} is in cluster {prev} and {ci}: {clusters:?}", points[*i].id)));
            }
        }
        let grown_from_core = idxs.iter().any(|c| core[*c] && idxs.iter().all(|m| reach(*c).contains(m)));
        if !grown_from_core {
            errs.push((
                "dbscan:not-density-reachable".into(),
                format!("cluster {cluster:?} has no core point from which all members are density-reachable (eps={eps}, min_pts={min_pts})"),
            ));
        }
    }
    for i in 0..n {
        if core[i] && !owner.contains_key(&i) && order.contains(&i) {
            errs.push(("dbscan:core-unclustered".into(), format!("core point {} is in no cluster: {clusters:?}", points[i].id)));
        }
    }
    errs
}

fn run_dbscan(ctx: &RunCtx, report: &mut Report) {
    let grid: Vec<(i32, i32)> = (0..3).flat_map(|x| (0..3).map(move |y| (x, y))).collect();
    let eps_list = [0.5, 1., 1.5, 3.];
    let min_list = [1usize, 2, 3, 4];
    // subsets of the grid; the two highest bits duplicate grid points 0 and 4 (same coordinates, distinct identity)
    let bits = 11;
    let subsets: Vec<u32> = (1u32..(1 << bits)).collect();
    let results = par_map(ctx.threads, subsets.len(), |si| {
        let mask = subsets[si];
        let mut r = Report::new("exploration");
        let mut points: Vec<Pt> = vec![];
        for b in 0..bits {
            if mask >> b & 1 == 1 {
                let (x, y) = if b < 9 { grid[b] } else if b == 9 { grid[0] } else { grid[4] };
                points.push(Pt { id: b, x, y });
            }
        }
        let n = points.len();
        if n > ctx.tier.pick(6, 11) {
            return r;
        }
        let orders: Vec<Vec<usize>> = if n <= ctx.tier.pick(4, 5) {
            all_perms(n)
        } else {
            vec![(0..n).collect(), (0..n).rev().collect(), (0..n).map(|i| (i * 2 + 1) % n).collect::<HashSet<_>>().into_iter().collect()]
                .into_iter()
                .filter(|o: &Vec<usize>| o.len() == n)
                .collect()
        };
        for &eps in &eps_list {
            for &min_pts in &min_list {
                for order in &orders {
                    r.add_count("dbscan_runs", 1);
                    r.add_count("evaluations", 1);
                    for (key, what) in check_dbscan(&points, order, eps, min_pts) {
                        r.violation(Violation::new(
                            key,
                            what,
                            json!({"part": "dbscan", "points": points.iter().map(|p| json!([p.id, p.x, p.y])).collect::<Vec<_>>(), "order": order, "eps": eps, "min_pts": min_pts}),
                        ));
                    }
                }
            }
        }
        r.add_count("dbscan_point_sets", 1);
        if mask % 301 == 0 {
            r.sample(json!({"dbscan_points": points.iter().map(|p| (p.x, p.y)).collect::<Vec<_>>()}));
        }
        r
    });
    for r in results {
        report.merge(r);
    }
}

// ---------------------------------------------------------------------------------------------
// k-medoids

impl Point for Pt {}

fn check_partition(points: &[Pt], clusters: &HashMap<Pt, Vec<Pt>>, what: &str) -> Vec<(String, String)> {
    let mut errs = vec![];
    let mut seen: HashMap<usize, usize> = HashMap::new();
    for (medoid, members) in clusters {
        if !points.contains(medoid) {
            errs.push(("kmedoids:unknown-medoid".to_string(), format!("{what}: medoid {medoid:?} is not an input point")));
        }
        for m in members {
            *seen.entry(m.id).or_default() += 1;
        }
    }
    for p in points {
        match seen.get(&p.id) {
            Some(1) => {}
            Some(k) => errs.push(("kmedoids:not-disjoint".to_string(), format!("{what}: point {} is in {k} clusters", p.id))),
            None => errs.push(("kmedoids:point-lost".to_string(), format!("{what}: point {} is in no cluster ({} clusters)", p.id, clusters.len()))),
        }
    }
    if seen.len() > points.len() {
        errs.push(("kmedoids:unknown-point".to_string(), format!("{what}: clusters contain points which were not given")));
    }
    errs
}

fn check_nearest(clusters: &[(&Pt, &Vec<Pt>)], what: &str, dist: fn(&Pt, &Pt) -> f64) -> Vec<(String, String)> {
    let mut errs = vec![];
    for (medoid, members) in clusters {
        for p in members.iter() {
            let own = dist(p, medoid);
            for (other, _) in clusters {
                if dist(p, other) < own - 1e-12 {
                    errs.push((
                        "kmedoids:not-nearest-medoid".to_string(),
                        format!("{what}: point {p:?} is assigned to medoid {medoid:?} (d={own}) but medoid {other:?} is closer (d={})", dist(p, other)),
                    ));
                }
            }
        }
    }
    errs
}

/// One-way distance (as routing distances are): going to a point with a smaller id is longer.
fn dist_oneway(a: &Pt, b: &Pt) -> f64 {
    let d = dist(a, b);
    if b.id < a.id { d * 2.5 + 0.25 } else { d }
}

fn check_kmedoids(points: &[Pt]) -> Vec<(String, String, Value)> {
    let mut errs = check_kmedoids_with(points, false);
    errs.extend(check_kmedoids_with(points, true));
    errs
}

fn check_kmedoids_with(points: &[Pt], oneway: bool) -> Vec<(String, String, Value)> {
    let dist = if oneway { dist_oneway } else { dist };
    let check_nearest = |clusters: &[(&Pt, &Vec<Pt>)], what: &str| check_nearest(clusters, what, dist);
    let mut errs: Vec<(String, String, Value)> = vec![];
    let n = points.len();
    // flat
    for k in 1..=3usize {
        if k > n {
            continue;
        }
        match catch(|| create_kmedoids(points, k, dist)) {
            Ok(clusters) => {
                let what = format!("flat k={k}");
                let mut e = check_partition(points, &clusters, &what);
                let list: Vec<(&Pt, &Vec<Pt>)> = clusters.iter().collect();
                e.extend(check_nearest(&list, &what));
                if clusters.len() > k {
                    e.push(("kmedoids:too-many-clusters".into(), format!("{what}: {} clusters", clusters.len())));
                }
                errs.extend(e.into_iter().map(|(a, b)| (a, b, json!({"mode": "flat", "k": k, "oneway": oneway}))));
            }
            Err(p) => errs.push((format!("kmedoids:panic@{}", panic_site(&p)), p, json!({"mode": "flat", "k": k, "oneway": oneway}))),
        }
    }
    // hierarchical
    for levels in 1..=3usize {
        match catch(|| create_hierarchical_kmedoids(points, levels, dist)) {
            Ok(tiers) => {
                let mut e = vec![];
                for (t, tier) in tiers.iter().enumerate() {
                    let what = format!("hierarchical levels={levels} tier={t}");
                    e.extend(check_partition(points, tier, &what));
                    if t == 0 {
                        let list: Vec<(&Pt, &Vec<Pt>)> = tier.iter().collect();
                        e.extend(check_nearest(&list, &what));
                    } else {
                        // siblings: clusters of this tier which refine the same cluster of the previous tier
                        for (_, parent) in tiers[t - 1].iter() {
                            let parent_ids: HashSet<usize> = parent.iter().map(|p| p.id).collect();
                            let children: Vec<(&Pt, &Vec<Pt>)> =
                                tier.iter().filter(|(_, c)| !c.is_empty() && c.iter().all(|p| parent_ids.contains(&p.id))).collect();
                            e.extend(check_nearest(&children, &format!("{what} (siblings)")));
                        }
                    }
                }
                errs.extend(e.into_iter().map(|(a, b)| (a, b, json!({"mode": "hierarchical", "levels": levels, "oneway": oneway}))));
            }
            Err(p) => errs.push((format!("kmedoids:panic@{}", panic_site(&p)), p, json!({"mode": "hierarchical", "levels": levels, "oneway": oneway}))),
        }
    }
    errs
}

fn run_kmedoids(ctx: &RunCtx, report: &mut Report) {
    let grid: Vec<(i32, i32)> = (0..3).flat_map(|x| (0..3).map(move |y| (x, y))).collect();
    let bits = 10; // 9 grid points + a duplicate of the centre
    let subsets: Vec<u32> = (1u32..(1 << bits)).filter(|m| m.count_ones() <= ctx.tier.pick(6, 7)).collect();
    let policies = PlanPolicy::all();
    let results = par_map(ctx.threads, subsets.len(), |si| {
        let mask = subsets[si];
        let mut r = Report::new("exploration");
        let points: Vec<Pt> = (0..bits)
            .filter(|b| mask >> b & 1 == 1)
            .map(|b| {
                let (x, y) = if b < 9 { grid[b] } else { grid[4] };
                Pt { id: b, x, y }
            })
            .collect();
        for policy in policies {
            install_policy(policy);
            let errs = check_kmedoids(&points);
            uninstall_plan();
            r.add_count("kmedoids_runs", 6);
            r.add_count("evaluations", 6);
            for (key, what, mode) in errs {
                r.violation(Violation::new(
                    key,
                    what,
                    json!({"part": "kmedoids", "points": points.iter().map(|p| json!([p.id, p.x, p.y])).collect::<Vec<_>>(), "policy": policy.name(), "mode": mode}),
                ));
            }
        }
        // and under real rayon (no plan)
        for (key, what, mode) in check_kmedoids(&points) {
            r.violation(Violation::new(
                key,
                what,
                json!({"part": "kmedoids", "points": points.iter().map(|p| json!([p.id, p.x, p.y])).collect::<Vec<_>>(), "policy": "rayon", "mode": mode}),
            ));
        }
        r.add_count("kmedoids_point_sets", 1);
        if mask % 211 == 0 {
            r.sample(json!({"kmedoids_points": points.iter().map(|p| (p.x, p.y)).collect::<Vec<_>>()}));
        }
        r
    });
    for r in results {
        report.merge(r);
    }
}

// ---------------------------------------------------------------------------------------------

pub fn worker(ctx: &RunCtx, shard: usize, of: usize, _extra: &Extra) -> Report {
    lkh_shard(ctx, shard, of)
}

pub fn run(ctx: &RunCtx) -> Report {
    let mut report = Report::new("exploration");
    let lkh = run_sharded_report(ctx, "exploration", ctx.threads.max(1) * 2, &[]);
    report.merge(lkh);
    run_dbscan(ctx, &mut report);
    run_kmedoids(ctx, &mut report);
    let distinct = report.get_count("lkh_runs") + report.get_count("dbscan_runs") + report.get_count("kmedoids_point_sets");
    report.set("distinct_nontrivial", distinct);
    report.set("exhaustive", true);
    report.set(
        "rule",
        "LKH: every symmetric matrix over {1,2,3,5} for n<=4 (quick; +1/64 of n=5) or n<=5 (thorough) plus Euclidean grids, every start permutation \
         (start node != 0 included), step budget as termination horizon; DBSCAN: every subset of a 3x3 grid + 2 duplicates x eps{0.5,1,1.5,3} x \
         min_pts{1..4} x presentation orders; k-medoids: every subset (<=6/7 points) of the grid + duplicate, flat k=1..3 (k<=n) and hierarchical \
         levels 1..3 under 5 split-plan policies and real rayon; distinct = enumerated (instance, order) pairs",
    );
    report.assume("flat k-medoids is only called with k <= number of points (as the library's callers do)");
    report
}

pub fn replay(_ctx: &RunCtx, scenario: &Value) -> Result<Vec<Violation>, String> {
    let part = scenario["part"].as_str().unwrap_or("");
    let mut out = vec![];
    let pts = |v: &Value| -> Vec<Pt> {
        v.as_array()
            .map(|a| {
                a.iter()
                    .filter_map(|p| {
                        let p = p.as_array()?;
                        Some(Pt { id: p[0].as_u64()? as usize, x: p[1].as_i64()? as i32, y: p[2].as_i64()? as i32 })
                    })
                    .collect()
            })
            .unwrap_or_default()
    };
    match part {
        "lkh" => {
            let n = scenario["n"].as_u64().ok_or("n")? as usize;
            let m: Vec<f64> = scenario["matrix"].as_array().ok_or("matrix")?.iter().filter_map(|x| x.as_f64()).collect();
            let start: Vec<usize> = scenario["start"].as_array().ok_or("start")?.iter().filter_map(|x| x.as_u64().map(|x| x as usize)).collect();
            for (key, what) in check_lkh(n, &m, &start) {
                out.push(Violation::new(key, what, scenario.clone()));
            }
        }
        "dbscan" => {
            let points = pts(&scenario["points"]);
            let order: Vec<usize> = scenario["order"].as_array().ok_or("order")?.iter().filter_map(|x| x.as_u64().map(|x| x as usize)).collect();
            let eps = scenario["eps"].as_f64().ok_or("eps")?;
            let min_pts = scenario["min_pts"].as_u64().ok_or("min_pts")? as usize;
            for (key, what) in check_dbscan(&points, &order, eps, min_pts) {
                out.push(Violation::new(key, what, scenario.clone()));
            }
        }
        "kmedoids" => {
            let points = pts(&scenario["points"]);
            let policy = scenario["policy"].as_str().unwrap_or("rayon");
            if let Some(p) = PlanPolicy::all().into_iter().find(|p| p.name() == policy) {
                install_policy(p);
            }
            let errs = check_kmedoids(&points);
            uninstall_plan();
            for (key, what, _) in errs {
                out.push(Violation::new(key, what, scenario.clone()));
            }
        }
        _ => return Err(format!("unknown part {part}")),
    }
    Ok(out)
}
