//! C12 — the solution checker accepts valid solutions and rejects injected breaches.
//!
//! Fault enumeration: corpus = (problem, solver solution) pairs of the families the checker documents; acceptance on the
//! originals; every single-breach mutation operator at EVERY applicable site, each mutant confirmed invalid for the
//! intended rule class by the independent oracle before the checker is asked.

use super::Extra;
use crate::prag::families::*;
use crate::prag::model::*;
use crate::prag::oracle::{self, OracleOptions};
use crate::prag::solve::*;
use crate::*;
use serde_json::{Value, json};
use std::io::BufReader;
use std::sync::Arc;
use vrp_pragmatic::checker::CheckerContext;
use vrp_pragmatic::format::problem::{deserialize_matrix, deserialize_problem};
use vrp_pragmatic::format::solution::deserialize_solution;

fn corpus(tier: Tier) -> Vec<(String, PProblem)> {
    let mut out = vec![];
    for (name, problems) in all_families(tier) {
        // thorough: skills, priorities, groups, compatibility and the objective shapes too
        let skipped: &[&str] = if tier == Tier::Quick { &["unreach", "infeasible", "shape", "attr"] } else { &["unreach", "infeasible"] };
        if skipped.contains(&name) {
            continue;
        }
        let per = match (name, tier) {
            ("core", Tier::Quick) => 80,
            ("places", _) => 400,
            // reloads, shared resources, breaks, vehicles with two shifts: every problem
            ("cond", _) => 400,
            (_, Tier::Quick) => 16,
            // thorough: every problem of every family
            _ => usize::MAX,
        };
        let candidates: Vec<PProblem> = problems.into_iter().filter(|p| p.jobs.len() >= 2).collect();
        let step = (candidates.len() / per.max(1)).max(1);
        out.extend(candidates.into_iter().step_by(step).take(per).map(|p| (name.to_string(), p)));
    }
    // recharge stations: acceptance and mutants (the oracle replays them fully)
    let rc = family_recharge();
    let step = tier.pick(6, 1);
    out.extend(rc.into_iter().step_by(step).map(|p| ("recharge".to_string(), p)));
    // required breaks: acceptance only (the oracle does not replay the schedule around a break taken on the road)
    let req = family_reqbreak();
    let step = tier.pick(4, 1);
    out.extend(req.into_iter().step_by(step).map(|p| ("reqbreak".to_string(), p)));
    out.extend(family_combo(2).into_iter().step_by(tier.pick(8, 1)).map(|p| ("combo".to_string(), p)));
    // vicinity clustering: acceptance, and the commute records as mutation sites (the oracle replays the walk, not the schedule)
    out.extend(family_cluster_walk().into_iter().map(|p| ("cluster".to_string(), p)));
    out.extend(family_cluster().into_iter().step_by(tier.pick(12, 1)).map(|p| ("cluster".to_string(), p)));
    // clustered jobs with time windows (every threshold option)
    out.extend(family_cluster_tw().into_iter().step_by(tier.pick(2, 1)).map(|p| ("cluster".to_string(), p)));
    if tier != Tier::Quick {
        out.extend(family_combo(3).into_iter().map(|p| ("combo".to_string(), p)));
        // NOTE: time dependent matrices are left out: the checker declares them unsupported itself
        // ("not implemented: time aware routing check"), the property speaks of the supported features
        out.extend(family_mixed10().into_iter().map(|p| ("mixed10".to_string(), p)));
        out.extend(family_line12().into_iter().map(|p| ("line12".to_string(), p)));
    }
    out
}

/// Runs the repository checker on (problem JSON, matrices, solution JSON).
pub fn run_checker(problem: &Value, matrices: &[Value], solution: &Value) -> Result<Result<(), Vec<String>>, String> {
    let (p, m, s) = (problem.to_string(), matrices.iter().map(|m| m.to_string()).collect::<Vec<_>>(), solution.to_string());
    catch(move || -> Result<Result<(), Vec<String>>, String> {
        use vrp_pragmatic::format::problem::PragmaticProblem;
        let api_problem = deserialize_problem(BufReader::new(p.as_bytes())).map_err(|e| format!("problem: {e}"))?;
        let api_matrices = m.iter().map(|m| deserialize_matrix(BufReader::new(m.as_bytes())).map_err(|e| format!("matrix: {e}"))).collect::<Result<Vec<_>, _>>()?;
        let api_solution = deserialize_solution(BufReader::new(s.as_bytes())).map_err(|e| format!("solution: {e}"))?;
        let core = (api_problem.clone(), api_matrices.clone()).read_pragmatic().map_err(|e| format!("core: {e}"))?;
        let ctx = CheckerContext::new(Arc::new(core), api_problem, Some(api_matrices), api_solution).map_err(|e| format!("checker context: {e:?}"))?;
        Ok(ctx.check().map_err(|errs| errs.into_iter().map(|e| e.to_string()).collect()))
    })
    .map_err(|p| format!("panic: {p}"))?
}

#[derive(Clone, Debug)]
struct Mutant {
    class: &'static str,
    /// rule prefixes of the oracle which confirm that the mutant is invalid for the intended class
    confirms: &'static [&'static str],
    site: String,
    problem: PProblem,
    solution: Value,
}

fn stops_of(solution: &Value, ti: usize) -> usize {
    solution["tours"][ti]["stops"].as_array().map_or(0, |s| s.len())
}

fn is_job_activity(a: &Value) -> bool {
    !["departure", "arrival", "break", "reload", "recharge"].contains(&a["jobId"].as_str().unwrap_or(""))
}

fn shift_time(v: &Value, by: f64) -> Value {
    v.as_str().and_then(parse_time).map(|t| json!(fmt_time(t + by))).unwrap_or(v.clone())
}

/// Every single-breach mutant of the pair.
fn mutants(problem: &PProblem, solution: &Value) -> Vec<Mutant> {
    let mut out = vec![];
    let tours = solution["tours"].as_array().cloned().unwrap_or_default();
    let mk = |class, confirms, site: String, p: &PProblem, s: Value| Mutant { class, confirms, site, problem: p.clone(), solution: s };
    for (ti, tour) in tours.iter().enumerate() {
        let nstops = stops_of(solution, ti);
        for si in 0..nstops {
            let stop = &tour["stops"][si];
            // misreported load: +1 in the first dimension
            if let Some(load) = stop["load"].as_array() {
                if !load.is_empty() {
                    let mut s = solution.clone();
                    s["tours"][ti]["stops"][si]["load"][0] = json!(load[0].as_i64().unwrap_or(0) + 1);
                    out.push(mk("misreported-load", &["C03:load", "C01:capacity"], format!("tour {ti} stop {si}"), problem, s));
                }
            }
            // arrival shifted by 2 seconds (not the departure stop: its arrival is not constrained by travel)
            if si > 0 {
                let mut s = solution.clone();
                s["tours"][ti]["stops"][si]["time"]["arrival"] = shift_time(&stop["time"]["arrival"], 2.);
                // keep a single-activity stop internally consistent: departure moves as well
                out.push(mk("arrival-mismatch", &["C03:arrival", "C03:departure", "C01:time-window", "C01:shift-end", "C03:activity-time"], format!("tour {ti} stop {si}"), problem, s));
                // stop distance +2
                if stop.get("distance").is_some() {
                    let mut s = solution.clone();
                    s["tours"][ti]["stops"][si]["distance"] = json!(stop["distance"].as_i64().unwrap_or(0) + 2);
                    out.push(mk("distance-mismatch", &["C03:distance", "C03:statistic-distance"], format!("tour {ti} stop {si}"), problem, s));
                }
            }
            let acts = stop["activities"].as_array().cloned().unwrap_or_default();
            for (ai, a) in acts.iter().enumerate() {
                if !is_job_activity(a) {
                    continue;
                }
                // unknown job id
                let mut s = solution.clone();
                s["tours"][ti]["stops"][si]["activities"][ai]["jobId"] = json!("ghost_job");
                out.push(mk("unknown-job", &["C02:unknown-job"], format!("tour {ti} stop {si} activity {ai}"), problem, s));
                // duplicated activity (same stop, right after the original)
                let mut s = solution.clone();
                s["tours"][ti]["stops"][si]["activities"].as_array_mut().unwrap().insert(ai + 1, a.clone());
                out.push(mk("duplicated-activity", &["C02:task-count"], format!("tour {ti} stop {si} activity {ai}"), problem, s));
                // dropped job: the activity disappears (the stop too if it was alone)
                let mut s = solution.clone();
                if acts.len() == 1 {
                    s["tours"][ti]["stops"].as_array_mut().unwrap().remove(si);
                } else {
                    s["tours"][ti]["stops"][si]["activities"].as_array_mut().unwrap().remove(ai);
                }
                out.push(mk("dropped-job", &["C02:job-lost", "C02:task-count"], format!("tour {ti} stop {si} activity {ai}"), problem, s));
                // listed assigned and unassigned
                let mut s = solution.clone();
                let entry = json!({"jobId": a["jobId"], "reasons": [{"code": "NO_REASON_FOUND", "description": "unknown"}]});
                match s.get_mut("unassigned").and_then(|u| u.as_array_mut()) {
                    Some(u) => u.push(entry),
                    None => s["unassigned"] = json!([entry]),
                }
                out.push(mk("assigned-and-unassigned", &["C02:job-assigned-and-unassigned"], format!("job {}", a["jobId"]), problem, s));
                // split over tours: the activity (its stop) moves to another tour, the job's other tasks stay
                if tours.len() > 1 {
                    let job_id = a["jobId"].as_str().unwrap_or("");
                    let tasks_of_job = problem.jobs.iter().find(|j| j.id == job_id).map_or(1, |j| j.tasks.len());
                    if tasks_of_job > 1 && acts.len() == 1 {
                        // every other tour is a target (incl. the tour of another shift of the same vehicle)
                        for other in (0..tours.len()).filter(|o| *o != ti) {
                            let mut s = solution.clone();
                            let moved = s["tours"][ti]["stops"].as_array_mut().unwrap().remove(si);
                            let pos = stops_of(&s, other).min(1);
                            s["tours"][other]["stops"].as_array_mut().unwrap().insert(pos, moved);
                            let same_vehicle = tours[other]["vehicleId"] == tour["vehicleId"];
                            out.push(mk("job-split", &["C02:job-split"], format!("tour {ti} stop {si} -> tour {other}{}", if same_vehicle { " (same vehicle, other shift)" } else { "" }), problem, s));
                        }
                    }
                }
            }
        }
        // tour statistic +-2
        for key in ["distance", "duration"] {
            let mut s = solution.clone();
            s["tours"][ti]["statistic"][key] = json!(tour["statistic"][key].as_i64().unwrap_or(0) + 2);
            out.push(mk("tour-statistic", &["C03:statistic"], format!("tour {ti} {key}"), problem, s));
        }
        // limits tightened below the tour's actual value (problem side)
        let type_id = tour["typeId"].as_str().unwrap_or("");
        if let Some(vi) = problem.vehicles.iter().position(|v| v.type_id == type_id) {
            let dist = tour["statistic"]["distance"].as_f64().unwrap_or(0.);
            let dur = tour["statistic"]["duration"].as_f64().unwrap_or(0.);
            let size: usize = tour["stops"].as_array().map_or(0, |s| s.iter().map(|st| st["activities"].as_array().map_or(0, |a| a.iter().filter(|x| is_job_activity(x)).count())).sum());
            for (which, limits) in [
                ("max-distance", PLimits { max_distance: Some(dist - 1.), ..Default::default() }),
                ("max-duration", PLimits { max_duration: Some(dur - 1.), ..Default::default() }),
                ("tour-size", PLimits { tour_size: Some(size.saturating_sub(1)), ..Default::default() }),
            ] {
                if (which == "max-distance" && dist < 2.) || (which == "max-duration" && dur < 2.) || (which == "tour-size" && size < 1) {
                    continue;
                }
                let mut p = problem.clone();
                let mut merged = p.vehicles[vi].limits.clone().unwrap_or_default();
                if limits.max_distance.is_some() {
                    merged.max_distance = limits.max_distance;
                }
                if limits.max_duration.is_some() {
                    merged.max_duration = limits.max_duration;
                }
                if limits.tour_size.is_some() {
                    merged.tour_size = limits.tour_size;
                }
                p.vehicles[vi].limits = Some(merged);
                out.push(mk("limit-breach", &["C01:max-distance", "C01:max-duration", "C01:tour-size"], format!("tour {ti} {which}"), &p, solution.clone()));
            }
            // recharge limit lowered below ONE stretch of the tour (start -> station, station -> station, station -> end), the
            // other stretches still fit: the breach is on that stretch alone (problem side)
            let shift_idx = tour["shiftIndex"].as_u64().unwrap_or(0) as usize;
            if let Some((_, stations)) = problem.vehicles[vi].shifts.get(shift_idx).and_then(|s| s.recharge.clone()) {
                let mut stretches: Vec<(f64, bool)> = vec![];
                let mut from = 0.;
                let stops = tour["stops"].as_array().cloned().unwrap_or_default();
                for st in &stops {
                    let at = st["distance"].as_f64().unwrap_or(0.);
                    let is_station = st["activities"].as_array().is_some_and(|a| a.iter().any(|x| x["type"] == "recharge"));
                    if is_station {
                        stretches.push((at - from, true));
                        from = at;
                    }
                }
                stretches.push((stops.last().and_then(|st| st["distance"].as_f64()).unwrap_or(0.) - from, false));
                for (k, (len, into_station)) in stretches.iter().enumerate() {
                    let limit = len - 1.;
                    if limit < 1. || stretches.iter().enumerate().any(|(j, (other, _))| j != k && *other > limit) {
                        continue;
                    }
                    let mut p = problem.clone();
                    p.vehicles[vi].shifts[shift_idx].recharge = Some((limit, stations.clone()));
                    out.push(mk(
                        "limit-breach",
                        &["C01:recharge-distance"],
                        format!("tour {ti} recharge limit {limit} below stretch {k}{}", if *into_station { " (which ends at a station)" } else { "" }),
                        &p,
                        solution.clone(),
                    ));
                }
            }
            // capacity lowered below the peak load of the tour (problem side): load above capacity
            let peak: i64 = tour["stops"].as_array().map_or(0, |s| s.iter().filter_map(|st| st["load"][0].as_i64()).max().unwrap_or(0));
            if peak >= 1 {
                let mut p = problem.clone();
                p.vehicles[vi].capacity[0] = peak - 1;
                out.push(mk("load-above-capacity", &["C01:capacity"], format!("tour {ti} capacity {}", peak - 1), &p, solution.clone()));
            }
        }
        // relation broken: pin two jobs of this tour to ANOTHER vehicle of the fleet (problem side)
        let ids: Vec<String> = tour["stops"]
            .as_array()
            .map(|s| s.iter().flat_map(|st| st["activities"].as_array().cloned().unwrap_or_default()).filter(is_job_activity).filter_map(|a| a["jobId"].as_str().map(|x| x.to_string())).collect())
            .unwrap_or_default();
        let this_vehicle = tour["vehicleId"].as_str().unwrap_or("");
        let other_vehicle = problem.vehicles.iter().flat_map(|v| v.vehicle_ids.iter()).find(|v| v.as_str() != this_vehicle && !tours.iter().any(|t| t["vehicleId"].as_str() == Some(v.as_str())));
        if let (Some(first), Some(other)) = (ids.first(), other_vehicle) {
            if problem.relations.is_empty() {
                let mut p = problem.clone();
                p.relations = vec![PRelation { kind: "any".into(), jobs: vec![first.clone()], vehicle_id: other.clone(), shift_index: Some(0) }];
                out.push(mk("broken-relation", &["C01:relation"], format!("job {first} pinned to unused vehicle {other}"), &p, solution.clone()));
            }
        }
        // the same with a vehicle which DOES drive a tour: every other tour of the solution (sibling ids of one type included)
        if let (Some(first), true) = (ids.first(), problem.relations.is_empty()) {
            for (tj, other_tour) in tours.iter().enumerate() {
                let other = other_tour["vehicleId"].as_str().unwrap_or("");
                if tj == ti || other == this_vehicle || other.is_empty() {
                    continue;
                }
                for kind in ["any", "sequence"] {
                    let mut p = problem.clone();
                    p.relations = vec![PRelation { kind: kind.into(), jobs: vec![first.clone()], vehicle_id: other.to_string(), shift_index: other_tour["shiftIndex"].as_u64().map(|x| x as usize) }];
                    out.push(mk("broken-relation", &["C01:relation"], format!("{kind} relation pins job {first} of '{this_vehicle}' to the used vehicle {other}"), &p, solution.clone()));
                }
            }
        }
        // strict relation over two adjacent jobs in the WRONG order (problem side)
        if ids.len() >= 2 && problem.relations.is_empty() && ids[0] != ids[1] {
            let mut p = problem.clone();
            p.relations = vec![PRelation { kind: "strict".into(), jobs: vec![ids[1].clone(), ids[0].clone()], vehicle_id: this_vehicle.to_string(), shift_index: tour["shiftIndex"].as_u64().map(|x| x as usize) }];
            out.push(mk("broken-relation", &["C01:relation"], format!("strict [{}, {}] on {this_vehicle}", ids[1], ids[0]), &p, solution.clone()));
        }
        // relation without shiftIndex (= shift 0) on a job which a LATER shift of the vehicle serves (problem side); the tour is
        // listed first so that "the vehicle's first tour" is not the one the relation means
        let shift_of_tour = tour["shiftIndex"].as_u64().unwrap_or(0);
        if shift_of_tour > 0 && problem.relations.is_empty() {
            if let Some(first) = ids.first() {
                for kind in ["sequence", "strict"] {
                    let mut p = problem.clone();
                    p.relations = vec![PRelation { kind: kind.into(), jobs: vec![first.clone()], vehicle_id: this_vehicle.to_string(), shift_index: None }];
                    let mut s = solution.clone();
                    let moved = s["tours"].as_array_mut().unwrap().remove(ti);
                    s["tours"].as_array_mut().unwrap().insert(0, moved);
                    out.push(mk("broken-relation", &["C01:relation"], format!("{kind} [{first}] on {this_vehicle} without shiftIndex, served by shift {shift_of_tour}"), &p, s));
                }
            }
        }
        // misplaced break: the break window of the shift is moved away from where the break was taken (problem side)
        let has_break = tour["stops"].as_array().is_some_and(|s| s.iter().any(|st| st["activities"].as_array().is_some_and(|a| a.iter().any(|x| x["type"] == "break"))));
        if has_break {
            if let Some(vi) = problem.vehicles.iter().position(|v| v.type_id == type_id) {
                let si = tour["shiftIndex"].as_u64().unwrap_or(0) as usize;
                let mut p = problem.clone();
                for b in p.vehicles[vi].shifts[si].breaks.iter_mut() {
                    b.time = (0., 1.);
                }
                out.push(mk("misplaced-break", &["C01:break-window"], format!("tour {ti}"), &p, solution.clone()));
            }
        }
    }
    // shared resource: capacity lowered below what all tours draw from it together, not below any single visit (problem side)
    for (ri, (id, cap)) in problem.resources.iter().enumerate() {
        let visits: Vec<i64> = tours
            .iter()
            .flat_map(|t| t["stops"].as_array().cloned().unwrap_or_default())
            .filter(|st| st["activities"].as_array().is_some_and(|a| a.iter().any(|x| x["type"] == "reload")))
            .filter_map(|st| st["load"][0].as_i64())
            .collect();
        let total: i64 = visits.iter().sum();
        let biggest = visits.iter().copied().max().unwrap_or(0);
        if visits.len() >= 2 && total - 1 >= biggest && total >= 1 && cap.first().is_some_and(|c| *c >= total) {
            let mut p = problem.clone();
            p.resources[ri].1[0] = total - 1;
            out.push(mk("resource-overdrawn", &["C01:resource"], format!("resource {id}: capacity {} for {visits:?}", total - 1), &p, solution.clone()));
        }
    }
    // overall statistic +-2
    for key in ["distance", "duration"] {
        let mut s = solution.clone();
        s["statistic"][key] = json!(solution["statistic"][key].as_i64().unwrap_or(0) + 2);
        out.push(mk("overall-statistic", &["C03:statistic-total"], key.to_string(), problem, s));
    }
    out
}

/// A consistent solution which serves the parts of the two-task job 'ss' by two tours: the solution of the twin problem in
/// which the parts are separate jobs, with the ids renamed back. Times, loads and statistics are right; only the job is split.
fn twin_split(problem: &PProblem, cfg: &SolveCfg) -> Option<Mutant> {
    let ji = problem.jobs.iter().position(|j| j.id == "ss" && j.tasks.len() == 2)?;
    let mut twin = problem.clone();
    let ss = twin.jobs.remove(ji);
    for (k, t) in ss.tasks.iter().enumerate() {
        twin.jobs.push(PJob { id: format!("ss_{k}"), tasks: vec![t.clone()], skills: None, group: None, compatibility: None, value: None });
    }
    let solved = solve(&twin, cfg, None, None).ok()?;
    let mut s = solved.json;
    let mut tours_with_part = vec![];
    for (ti, tour) in s["tours"].as_array_mut()?.iter_mut().enumerate() {
        for stop in tour["stops"].as_array_mut()?.iter_mut() {
            for a in stop["activities"].as_array_mut()?.iter_mut() {
                if a["jobId"].as_str().is_some_and(|id| id.starts_with("ss_")) {
                    a["jobId"] = json!("ss");
                    tours_with_part.push(ti);
                }
            }
        }
    }
    if tours_with_part.len() != 2 || tours_with_part[0] == tours_with_part[1] {
        return None;
    }
    let same_vehicle = s["tours"][tours_with_part[0]]["vehicleId"] == s["tours"][tours_with_part[1]]["vehicleId"];
    Some(Mutant {
        class: "job-split",
        confirms: &["C02:job-split"],
        site: format!("twin problem: parts of 'ss' served by tours {tours_with_part:?}{}", if same_vehicle { " (same vehicle, two shifts)" } else { "" }),
        problem: problem.clone(),
        solution: s,
    })
}

/// Clustered stops: every reported commute leg with its distance raised by 2 (a distance mismatch inside the stop).
fn commute_mutants(problem: &PProblem, solution: &Value) -> Vec<Mutant> {
    let mut out = vec![];
    for (ti, tour) in solution["tours"].as_array().into_iter().flatten().enumerate() {
        for (si, stop) in tour["stops"].as_array().into_iter().flatten().enumerate() {
            for (ai, act) in stop["activities"].as_array().into_iter().flatten().enumerate() {
                for dir in ["forward", "backward"] {
                    if let Some(d) = act["commute"].get(dir).and_then(|c| c["distance"].as_f64()) {
                        let mut s = solution.clone();
                        s["tours"][ti]["stops"][si]["activities"][ai]["commute"][dir]["distance"] = json!(d + 2.);
                        out.push(Mutant {
                            class: "distance-mismatch",
                            site: format!("tour {ti} stop {si} activity {ai} {dir} commute distance"),
                            confirms: if dir == "forward" { &["C03:commute-forward"] } else { &["C03:commute-backward"] },
                            problem: problem.clone(),
                            solution: s,
                        });
                    }
                }
            }
        }
    }
    out
}

fn judge_pair(family: &str, problem: &PProblem, cfg: &SolveCfg, report: &mut Report) {
    let Ok(solved) = solve(problem, cfg, None, None) else { return };
    let tol = oracle::tolerance(family, problem);
    let mut base_findings = oracle::check(problem, &solved.json, &OracleOptions { tol });
    if family == "reqbreak" {
        base_findings.retain(|f| f.rule.starts_with("C02:") || f.rule.starts_with("C01:required-break") || f.rule == "C01:capacity");
    }
    let clustered = family == "cluster" || problem.clustering.is_some();
    if clustered {
        base_findings.retain(|f| f.rule.starts_with("C02:") || f.rule.starts_with("C03:commute-") || f.rule == "C03:statistic-total" || f.rule == "C03:statistic-commuting" || f.rule == "C03:statistic-parking");
    }
    if !base_findings.is_empty() {
        // not a valid solution by the oracle (a C01-C03 matter): not part of the corpus
        report.add_count("pairs_skipped_invalid_by_oracle", 1);
        return;
    }
    report.add_count("pairs", 1);
    report.add_count("evaluations", 1);
    let scen = json!({"family": family, "problem": problem.name, "cfg": cfg.to_json()});
    // acceptance
    match run_checker(&problem.problem_json(), &problem.matrices_json(), &solved.json) {
        Ok(Ok(())) => {}
        Ok(Err(errs)) => {
            // keyed by the checker's complaint (digits and quoted ids removed) and by whether a job shares a stop with a reload
            let normalized: String = errs.first().map(|e| e.chars().filter(|c| !c.is_ascii_digit()).collect::<String>().split('\'').next().unwrap_or("").trim().to_string()).unwrap_or_default();
            let shares_stop_with_reload = solved.json["tours"].as_array().is_some_and(|t| {
                t.iter().any(|tour| {
                    tour["stops"].as_array().is_some_and(|s| {
                        s.iter().any(|st| {
                            let acts = st["activities"].as_array().cloned().unwrap_or_default();
                            acts.iter().any(|a| a["type"] == "reload") && acts.iter().any(is_job_activity)
                        })
                    })
                })
            });
            // the checker cannot match the activities of a multi-task job whose tasks carry no tags: one class
            let normalized = if normalized.starts_with("cannot match activities to jobs") || normalized.starts_with("checker requires that multi job activity must have tag") || normalized.starts_with("cannot check multi job without unique tags") {
                "multi-job-without-tags".to_string()
            } else {
                normalized
            };
            // "load mismatch at stop N" / "at stops N, M": one class
            let normalized = if normalized.starts_with("load mismatch") { "load mismatch".to_string() } else { normalized };
            if std::env::var("VERIF_DUMP").is_ok() {
                eprintln!("PROBLEM {}\nMATRICES {}\nSOLUTION {}", problem.problem_json(), json!(problem.matrices_json()), solved.json);
            }
            report.violation(Violation::new(
                format!("valid-solution-rejected:{normalized}{}", if shares_stop_with_reload { ":job-and-reload-in-one-stop" } else { "" }),
                format!("{errs:?}"),
                scen.clone(),
            ))
        }
        Err(e) => report.violation(Violation::new(format!("checker-error:{family}"), e, scen.clone())),
    }
    // rejection
    if family == "reqbreak" {
        return;
    }
    let mut all_mutants = if clustered { commute_mutants(problem, &solved.json) } else { mutants(problem, &solved.json) };
    if !clustered {
        all_mutants.extend(twin_split(problem, cfg));
    }
    for m in all_mutants {
        report.add_count("mutants_generated", 1);
        let findings = oracle::check(&m.problem, &m.solution, &OracleOptions { tol });
        let confirmed = findings.iter().any(|f| m.confirms.iter().any(|c| f.rule.starts_with(c)));
        if !confirmed {
            report.add_count("mutants_not_confirmed_by_oracle", 1);
            continue;
        }
        report.add_count("evaluations", 1);
        report.add_count("mutants_judged", 1);
        report.add_count(&format!("mutants_{}", m.class), 1);
        let mscen = json!({"family": family, "problem": problem.name, "cfg": cfg.to_json(), "class": m.class, "site": m.site});
        match run_checker(&m.problem.problem_json(), &m.problem.matrices_json(), &m.solution) {
            Ok(Err(_)) => {}
            Ok(Ok(())) => {
                if std::env::var("VERIF_DUMP").is_ok() {
                    eprintln!("PROBLEM {}\nMATRICES {}\nSOLUTION {}", m.problem.problem_json(), json!(m.problem.matrices_json()), m.solution);
                    for f in &findings {
                        eprintln!("FINDING {} :: {}", f.rule, f.what);
                    }
                }
                // a tour whose activities all happen at the start location has one stop only (no legs)
                let tour_idx: Option<usize> = m.site.strip_prefix("tour ").and_then(|r| r.split(' ').next()).and_then(|d| d.parse().ok());
                let single_stop = tour_idx.and_then(|ti| m.solution["tours"][ti]["stops"].as_array().map(|s| s.len() == 1)).unwrap_or(false);
                report.violation(Violation::new(
                format!("breach-accepted:{}{}", m.class, if single_stop { ":single-stop-tour" } else { "" }),
                format!("{} at {}: the checker accepts, the oracle says {:?}", m.class, m.site, findings.iter().map(|f| f.rule.clone()).take(3).collect::<Vec<_>>()),
                mscen,
            ))
            }
            // the checker refusing to even look at a malformed solution counts as rejection, a panic does not
            Err(e) if e.starts_with("panic") => report.violation(Violation::new(format!("checker-panic:{}@{}", m.class, panic_site(&e)), e, mscen)),
            Err(_) => {}
        }
    }
}

pub fn worker(ctx: &RunCtx, shard: usize, of: usize, _extra: &Extra) -> Report {
    let mut report = Report::new("fault_enumeration");
    let corpus = corpus(ctx.tier);
    let mut cfgs = vec![
        SolveCfg { generations: 3, ..SolveCfg::default() },
        SolveCfg { population: PopKind::Greedy, hyper: HyperKind::Static, generations: 1, seed: 1, ..SolveCfg::default() },
    ];
    if ctx.tier != Tier::Quick {
        cfgs.push(SolveCfg { generations: 0, seed: 2, ..SolveCfg::default() });
        cfgs.push(SolveCfg { population: PopKind::Elitism, hyper: HyperKind::Static, generations: 12, seed: 3, ..SolveCfg::default() });
    }
    for (idx, (family, problem)) in corpus.iter().enumerate() {
        if idx % of != shard {
            continue;
        }
        for cfg in &cfgs {
            judge_pair(family, problem, cfg, &mut report);
        }
        if idx % 17 == 0 {
            report.sample(json!({"family": family, "problem": problem.name}));
        }
    }
    report
}

pub fn run(ctx: &RunCtx) -> Report {
    let n = corpus(ctx.tier).len();
    let mut report = run_sharded_report(ctx, "fault_enumeration", n.min(ctx.threads * 4), &[]);
    let judged = report.get_count("mutants_judged");
    report.set("distinct_nontrivial", judged);
    report.set("exhaustive", true);
    if judged == 0 {
        report.error("vacuous: no mutant was judged");
    }
    report.set(
        "rule",
        "corpus = solver solutions (2 configurations) of a slice of the families the checker documents, kept when the independent oracle finds them valid; \
         acceptance on every original; rejection on every single-breach mutant at every applicable site: misreported load, load above capacity, unknown / \
         duplicated / dropped job, job split over tours, assigned and unassigned, arrival +2 s, stop distance +2, tour and overall statistic +2, limits below \
         the actual value, broken relation (pinned elsewhere / strict in wrong order), misplaced break; a mutant is judged only if the oracle confirms it \
         invalid for the intended rule class; distinct = judged mutants (each a different (pair, class, site))",
    );
    report.assume("mutations on the problem side (limits, capacity, relations, break window) keep the solution fixed");
    report
}

pub fn replay(_ctx: &RunCtx, scenario: &Value) -> Result<Vec<Violation>, String> {
    let family = scenario["family"].as_str().ok_or("family")?;
    let name = scenario["problem"].as_str().ok_or("problem")?;
    let (family, problem) = corpus(Tier::Thorough).into_iter().chain(corpus(Tier::Quick)).find(|(f, p)| f == family && p.name == name).ok_or("problem not in corpus")?;
    let cfg = SolveCfg::from_json(&scenario["cfg"]);
    let mut report = Report::new("fault_enumeration");
    judge_pair(&family, &problem, &cfg, &mut report);
    let class = scenario.get("class").and_then(|c| c.as_str());
    Ok(report.violations.into_iter().filter(|v| class.is_none() || v.scenario.get("class").and_then(|c| c.as_str()) == class).collect())
}
