//! Helpers to build small core-level problems through the public builders.

use std::sync::Arc;
use vrp_core::models::problem::*;
use vrp_core::prelude::*;

/// Full matrix transport (row-major from*size+to), same values for distance and duration unless given.
pub fn matrix_transport(durations: Vec<Float>, distances: Vec<Float>) -> Arc<dyn TransportCost> {
    Arc::new(SimpleTransportCost::new(durations, distances).expect("bad matrix"))
}

/// |i-j|*10 line metric over n locations.
pub fn line_matrix(n: usize, step: Float) -> Vec<Float> {
    (0..n).flat_map(|i| (0..n).map(move |j| (i as Float - j as Float).abs() * step)).collect()
}

/// A minimal problem: n delivery jobs (demand 1) at locations 1..=n, `vehicles` closed vehicles of capacity `cap`.
pub fn simple_problem(n_jobs: usize, vehicles: usize, cap: i32, goal: impl FnOnce(Arc<dyn TransportCost>) -> GoalContext) -> Arc<Problem> {
    let m = line_matrix(n_jobs + 1, 10.);
    let transport = matrix_transport(m.clone(), m);
    let jobs = (1..=n_jobs).map(|i| {
        SingleBuilder::default().id(&format!("job{i}")).demand(Demand::delivery(1)).location(i).unwrap().build_as_job().unwrap()
    });
    let vehicles = (1..=vehicles).map(|i| {
        VehicleBuilder::default()
            .id(&format!("v{i}"))
            .add_detail(VehicleDetailBuilder::default().set_start_location(0).set_end_location(0).build().unwrap())
            .capacity(SingleDimLoad::new(cap))
            .build()
            .unwrap()
    });
    Arc::new(
        ProblemBuilder::default()
            .add_jobs(jobs)
            .add_vehicles(vehicles)
            .with_goal(goal(transport.clone()))
            .with_transport_cost(transport)
            .with_logger(Arc::new(|_| {}))
            .build()
            .expect("cannot build problem"),
    )
}

pub fn cvrp_goal(transport: Arc<dyn TransportCost>) -> GoalContext {
    let minimize_unassigned = MinimizeUnassignedBuilder::new("min-unassigned").build().unwrap();
    let capacity = CapacityFeatureBuilder::<SingleDimLoad>::new("capacity").build().unwrap();
    let transport = TransportFeatureBuilder::new("min-distance")
        .set_transport_cost(transport)
        .set_time_constrained(false)
        .build_minimize_distance()
        .unwrap();
    GoalContextBuilder::with_features(&[minimize_unassigned, transport, capacity]).unwrap().build().unwrap()
}
