//! Verification harness for reinterpretcat/vrp: bounded-exhaustive exploration of the real
//! implementation against independent oracles (see /verif/DESIGN.md).

pub mod checks;
pub mod core;
pub mod corekit;
pub mod corelab;
pub mod env;
pub mod prag;
pub mod sim;
pub mod stubs;

pub use crate::core::*;
