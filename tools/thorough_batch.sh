#!/bin/bash
# Runs the thorough tier of the given checks from ONE private copy of the harness binary (built once, so that seeded
# changes applied to /repo by tools/run_seed.sh meanwhile cannot leak into it). usage: thorough_batch.sh <tag> <ID>...
TAG=$1; shift
cd /verif || exit 2
git -C /repo diff --quiet || { echo "repo dirty"; exit 2; }
./check C16 --tier quick > /dev/null 2>&1 || { echo "build failed"; exit 2; }
BIN=/verif/target/run/vcheck.batch.$TAG
cp /verif/target/release/vcheck $BIN || exit 2
: > out/${TAG}_summary.log
for ID in "$@"; do
  S=$(date +%s)
  $BIN $ID --tier thorough > out/${TAG}_$ID.log 2>&1; RC=$?
  echo "$ID rc=$RC secs=$(( $(date +%s) - S ))" >> out/${TAG}_summary.log
done
rm -f $BIN
echo done >> out/${TAG}_summary.log
