#!/bin/bash
# debug helper: dump problem/solution/findings of a violation artefact: dump.sh <ID> <path>  (same process environment as a worker)
SEED=$(python3 -c "import json,sys;print(json.load(open('$2'))['scenario'].get('_shard',{}).get('hash_seed',0))")
VERIF_DUMP=1 RAYON_NUM_THREADS=1 VERIF_HASH_SEED=$SEED LD_PRELOAD=/verif/target/libverifshim.so setarch $(uname -m) -R /verif/target/release/vcheck worker $1 --tier quick --seed 0 --single $2 2>&1 >/dev/null | grep -E "^PROBLEM|^SOLUTION|^FINDING|^MATRICES" | python3 -c "
import sys,json
for l in sys.stdin:
    if l.startswith('SOLUTION'):
        s=json.loads(l[9:])
        print('STAT', s['statistic'])
        for t in s['tours']:
            print(t['vehicleId'], 'shift', t['shiftIndex'], t['statistic'])
            for st in t['stops']:
                print('  ', st.get('location'), st['time']['arrival'][11:19], st['time']['departure'][11:19], st.get('distance'), st['load'], [(a['jobId'],a['type'],a.get('jobTag'), (a.get('time') or {}).get('start','')[11:19]) for a in st['activities']])
        print('unassigned', json.dumps(s.get('unassigned'))[:400])
    elif l.startswith('FINDING'): print(l.strip()[:300])
    elif l.startswith('PROBLEM'):
        p=json.loads(l[8:])
        for j in p['plan']['jobs']: print('JOB', json.dumps(j)[:300])
        print('REL', json.dumps(p['plan'].get('relations')))
        for v in p['fleet']['vehicles']: print('VEH', json.dumps(v)[:700])
        print('OBJ', json.dumps(p.get('objectives')))
    elif l.startswith('MATRICES'):
        m=json.loads(l[9:])[0]; print('TT', m['travelTimes']); print('DD', m['distances']); print('EC', m.get('errorCodes'))
"
