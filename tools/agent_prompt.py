#!/usr/bin/env python3
"""Prints the prompt for a mutation sub-agent: property text + scratch worktree only (nothing from /verif)."""
import json, sys
pid = sys.argv[1]
wt = f"/tmp/wt-{pid}"
prop = None
for l in open("/verif/properties.jsonl"):
    p = json.loads(l)
    if p["id"] == pid:
        prop = p
print(f"""You are given a scratch git worktree of the open-source Rust project reinterpretcat/vrp (a Vehicle Routing Problem solver: crates rosomaxa, vrp-core, vrp-pragmatic, vrp-scientific, vrp-cli) at {wt}. Work ONLY inside {wt}. Never read or write /repo or /verif (they are off limits). There is no network: always pass --offline to cargo and set CARGO_NET_OFFLINE=true; use CARGO_TARGET_DIR={wt}/target so builds stay inside the worktree. The machine is shared: do not use more than 4 build jobs (-j4) and run tests with --test-threads 4.

Here is a semantic property that the library is supposed to satisfy:

TITLE: {prop['title']}
STATEMENT: {prop['statement']}
QUANTIFIER: {prop['quantifier']['text']}
RELEVANT FILES (starting points): {', '.join(prop['anchors']['files'])}

YOUR TASK: produce realistic changes (mutations) to the LIBRARY SOURCE (not to tests) that BREAK this property while the code still compiles and the project's existing test suite still passes. Each change should look like a slip a maintainer could plausibly make (off-by-one, wrong comparison operator, forgotten update of a cache/set/counter, swapped arguments, wrong index/leg/dimension, early exit from a loop, condition checked on the wrong element, stale state, two cooperating sites that each look fine alone). IMPORTANT: the breakage must need something specific to manifest - an unusual input shape, a particular multi-step operation sequence, a specific configuration, a boundary value (equality, last element, empty collection), a particular split/interleaving - NOT something ordinary use would expose at once (which is also why the existing tests keep passing).

Try to deliver 2 (at most 3) DIFFERENT, independent changes (different mechanisms, preferably different files/functions). For each change number n = 1, 2, ...:
 1. Make the change in the worktree. Build. Run the existing tests: at minimum all tests of every crate you touched AND of crates depending on it, e.g. `cargo test -p vrp-core -p vrp-pragmatic -p vrp-scientific -p vrp-cli --offline -j4 -- --test-threads 4` (the full baseline is `cargo test --workspace --offline --no-fail-fast`; a few tests in experiments/heuristic-research are slow; run them too if you touched rosomaxa). ALL existing tests must pass with your change; if any fails, pick another change.
 2. Write a demonstration that FAILS with the change and PASSES without it: preferably a new integration-test file (e.g. {wt}/<crate>/tests/verif_demo_{pid.lower()}_n.rs, auto-discovered by cargo, using only the crate's public API) or a small example program. It must show a violation of the property as stated above (not merely "output changed"). Run it both ways and record the outputs.
 3. Save into {wt}/out/n/ :  patch.diff (output of `git diff` for the library source change ONLY, must apply to the clean HEAD with `git apply`),  the demonstration file(s) (copy) plus demo.diff (a patch adding only the new demonstration files, i.e. `git diff` after `git add -N` of new files, or just copies with a note where they go),  meta.json with keys: property ("{pid}"), title, what_it_breaks (which clause of the property), mechanism (what the change does), needs_to_manifest (the specific input/sequence/config needed), demo_command (exact command to run the demonstration), commands_run (list), existing_tests (which test commands you ran with the change and their pass/fail counts).
 4. Restore the worktree to clean HEAD (`git checkout -- . && git clean -fd -e out -e target`) before starting the next change.

At the end reply with a short summary: for each change the file/function touched, one sentence on the mechanism, what is needed to manifest, and confirmation that existing tests passed and the demo fails-with/passes-without. Be efficient: builds are slow (several minutes for a full test build), so think before building, and prefer changes in the crates named in the relevant files.""")
