#!/bin/bash
# Runs ONE check against ONE (not yet archived) seeded change in isolation: scratch worktree of /repo + scratch copy of the
# harness under /tmp/isorun (build output kept between calls; remove with `iso_run.sh --clean`), evidence/out redirected.
# usage: iso_run.sh <patch.diff> <ID> [tier]
ISO=/tmp/isorun
if [ "$1" = "--clean" ]; then [ -d $ISO/repo ] && git -C /repo worktree remove --force $ISO/repo; rm -rf $ISO; exit 0; fi
PATCH=$1; ID=$2; TIER=${3:-quick}
(
flock 9
mkdir -p $ISO/outroot
[ -d $ISO/repo ] && git -C /repo worktree remove --force $ISO/repo
git -C /repo worktree add --detach $ISO/repo HEAD -q || exit 2
rm -rf $ISO/harness/src; mkdir -p $ISO/harness/.cargo && cp -r /verif/harness/src /verif/harness/Cargo.toml /verif/harness/Cargo.lock $ISO/harness/
sed -i "s#/repo/#$ISO/repo/#g" $ISO/harness/Cargo.toml
printf '[net]\noffline = true\n\n[build]\nrustflags = ["--cfg", "reinterpretcat_vrp_verif"]\ntarget-dir = "%s/target"\n' $ISO > $ISO/harness/.cargo/config.toml
git -C $ISO/repo apply $PATCH || { echo "patch does not apply"; exit 2; }
(cd $ISO/harness && CARGO_NET_OFFLINE=true nice cargo build --release --offline > $ISO/build.log 2>&1) || { echo "build failed"; tail -20 $ISO/build.log; exit 2; }
cp $ISO/target/release/vcheck $ISO/vcheck.run
VERIF_ALL=1 VERIF_OUT_ROOT=$ISO/outroot nice $ISO/vcheck.run $ID --tier $TIER > $ISO/run_$ID.log 2>&1; rc=$?
grep -E "^  key=" $ISO/run_$ID.log | sed 's/ ::.*//;s/^  key=//' | sort | uniq -c | head -8
tail -1 $ISO/run_$ID.log | cut -c1-200
echo "iso_run exit=$rc"
git -C /repo worktree remove --force $ISO/repo
) 9>/tmp/isorun.lock
