#!/usr/bin/env python3
"""Generates /verif/MANIFEST.json from the table below (keeps it schema-valid at all times)."""
import json, subprocess, sys

ALL = [f"C{i:02d}" for i in range(1, 21)]

# id -> (category, technique, text, note, design_ref)
CHECKS = {
    "C15": ("model_checking",
            "exhaustive enumeration of split plans (compositions x order-preserving reduction trees x identity injections) of the parallel fold/reduce, executed through hook H1; plan model bound to real rayon by a conformance pass",
            "For every evaluation context (root constructions of a slice of the families with 1-3 jobs taken out again; 2-6 (route, job) items) EVERY split plan is executed on the real PositionInsertionEvaluator::evaluate_all and the chosen cost vector is compared with the library's own sequential scan and, for single-task jobs, with an independent minimum over all pairs. Real pools of 1-16 threads are sampled (labelled). Full solves under 11 pool layouts / plan policies are judged by the oracle. Conformance: the segment/tree structure of real rayon fold+reduce runs must be a member of the plan model (traces_validated_against_impl).",
            "Real thread schedules are sampled, the exhaustive statement is about split plans; contexts <= 6 items; multi-task jobs sample permutations from per-thread random sources and are compared under plans only.",
            "DESIGN.md section 5 C15"),
    "C12": ("fault_enumeration",
            "fault enumeration: every single-breach mutation at every applicable site of every solution of a corpus, each mutant confirmed invalid by an independent oracle",
            "Corpus: solver solutions (2 configurations) of a slice of the families the checker documents, kept only if the independent oracle finds them valid. Acceptance: the repository checker must accept every original. Rejection: 14 mutation classes (misreported load, load above capacity, unknown/duplicated/dropped job, job split over tours, assigned and unassigned, arrival +2 s, stop distance +2, tour/overall statistic +2, limit below actual, broken relation, misplaced break) are applied at EVERY applicable site; a mutant is judged only if the oracle confirms it invalid for the intended rule class; the checker must answer Err.",
            "Mutation magnitude 2 units (above the checker's +-1 tolerance); problem-side mutations keep the solution fixed.",
            "DESIGN.md section 5 C12"),
    "C07": ("fault_enumeration",
            "crash-point enumeration: the quota fires at every poll index, a virtual-clock deadline passes at every clock read, every generation limit with a counting hyper-heuristic",
            "For every problem of a slice and every configuration the number N of quota polls of the uninterrupted run is measured and the solve is repeated with a CountingQuota firing at the k-th poll for EVERY k in 0..=N; a time limit is driven by the virtual clock (hook H3) so that the deadline passes at clock read j for every j <= 40/400; max-generations {0,1,2,3,5} are run with a counting hyper-heuristic wrapper. Every solve must return Ok and the solution must pass the full oracle (C01-C03 rules); rounds <= limit.",
            "Poll points are the library's own; workers are single-threaded deterministic processes.",
            "DESIGN.md section 5 C07"),
    "C01": ("exploration",
            "bounded-exhaustive enumeration of small problems x solver configurations x RNG streams x split-plan policies, solved in deterministic workers and judged by an independent oracle",
            "Every problem of 11 small-problem families (core multisets of 11 job templates x fleet x shift x objectives, pickup-delivery, multi-dimensional load, skills/groups/compatibility/order/value, limits, reloads/breaks/two shifts, relations, unreachable legs, scaled profiles, infeasible, tour-shape objectives) x every configuration of a configuration alphabet (population x hyper-heuristic x generations x RNG stream x split-plan policy x initial size) plus long 12-job runs is solved by the real solver; the hard-constraint rule group of the oracle (capacity per reload interval and dimension, time windows, shift, skills, limits, groups, compatibility, order, reachability, relation pinning) is judged on every returned solution.",
            "<= 6 jobs / 3 vehicles / 5 locations (12 jobs in the long runs); required breaks, recharge, clustering outside the oracle; real thread interleavings are replaced by split-plan policies (C15 samples real pools).",
            "DESIGN.md section 5 C01"),
    "C02": ("exploration",
            "same scenario space as C01, accounting rule group of the oracle",
            "Same enumeration as C01 (own runs); the accounting rules are judged: plan jobs = assigned + unassigned exactly once, all tasks of an assigned job once on one tour with pickups before deliveries, reasons present, known ids only, every tour names an existing vehicle/shift and serves at least one job, no vehicle shift twice, break/reload activities map to distinct definitions of that shift.",
            "As C01.",
            "DESIGN.md section 5 C02"),
    "C03": ("exploration",
            "same scenario space as C01, replay of every returned tour from the matrices alone",
            "Same enumeration as C01 (own runs); every returned tour is replayed from the problem's matrices, costs and the reported visiting order: arrival/departure per stop, activity intervals, per-stop load, cumulative distance, tour statistic incl. the driving/serving/waiting/break split and cost, overall statistic = sum of tours, place tag = tag of the place used. Integral worlds: exact; scaled profiles: +-1 per leg.",
            "As C01; tours using a leg the matrix flags unreachable cannot be replayed (undefined) and are judged by C01 only.",
            "DESIGN.md section 5 C03"),
    "C04": ("model_checking",
            "explicit-state BFS over operator histories on the real InsertionContext with an invariant evaluated in every new state",
            "Roots are initial constructions (4 recreate methods x 2 random policies) of a slice of the pragmatic families plus 12-job line problems with relations; transitions are 35 shipped operators (every ruin + cheapest recreate, string ruin + every recreate, 6 local operators, LKH in both modes, decomposition, redistribution, infeasible search, the default composite) x random-answer policies; BFS to depth 2/3 with states merged on a canonical digest of tours and job sets; I1 partition of customer jobs, I2 registry, I3 multi-jobs, I4 pinned jobs, I5 feasibility by the independent oracle, I6 parent unchanged (full digest incl. cached state via hook H4), I7 no panic.",
            "Random answers: default menu entry or pseudo-random streams, not the full deviation tree; a state cap per root (reported); problems <= 12 jobs.",
            "DESIGN.md section 5 C04"),
    "C05": ("model_checking",
            "same BFS as C04; in every state the cached route/solution state (hook H4 digest) is compared with a full recomputation from the bare tours",
            "In every state reached by the C04 search the cached per-route and per-solution state is rendered through hook H4, the state is stripped, rebuilt with the library's own accept_route_state/accept_solution_state (to a fixpoint, <= 3 passes) and compared; tours must not change under recomputation and the fitness vector must be a function of the tours.",
            "As C04; entries of unknown type would be counted as opaque (currently 0).",
            "DESIGN.md section 5 C05"),
    "C06": ("exploration",
            "bounded-exhaustive enumeration of small tours x jobs x positions on the real evaluator against an independent step-by-step simulator",
            "Every visiting sequence of <= 4 (quick) / 6 (thorough) tasks over 14 task templates (static and shipment demand, point/two/late windows, two places, service 0/5) with every place and window choice on 6 vehicles (closed/open, loose/tight end, capacity 1/2, a start interval with three departures) that the simulator finds feasible is built on the real types; every outside job is evaluated at every leg (Concrete) and with Any (exhaustive legs, best selector). Soundness: a Success, applied exactly as the library applies it, must simulate feasible. Completeness (single-task jobs): if the simulator finds any feasible (position, place, window), Any must succeed.",
            "4 locations with an integral asymmetric matrix; single-dimensional load; feasibility judged at the tour's current departure time.",
            "DESIGN.md section 5 C06"),
    "C20": ("exploration",
            "bounded-exhaustive enumeration of successful insertion quotes, each carried out through the public heuristic and compared with the realised fitness change",
            "Over the C06 tour space (<= 3/4 visits), for each of 5 single-layer goals (unassigned, tours, distance, value, cost) every successful quote at every leg is applied through InsertionHeuristic::process with a one-shot evaluator and fitness(after) - fitness(before) is compared with the quote exactly (integral world); the cheapest quote must be the cheapest realised change; the cost objective is only judged when the simulator sees no waiting before and after.",
            "Problems without breaks/reloads; earliest departure only; 'before' counts the job as unassigned.",
            "DESIGN.md section 5 C20"),
    "C19": ("model_checking",
            "exhaustive enumeration of operation histories on the real GSOM network with a well-formedness invariant evaluated after every step",
            "Every history of length 4/5 over {store_batch(1..3), smooth, compact, set_learning_rate} x 5 input families (clusters, exact duplicates, far outlier, constant, collinear) x 32/64 network configurations x 2/3 random-answer policies is executed on the real Network (harness input/storage types); key==coordinate, unique coordinates, finite weights of input dimension, node capacity, find(), finite error measures, compaction rules are judged after construction and after every step. The real Rosomaxa population is streamed and observed through NetworkState; weight vectors of real VRP individuals (incl. the solution without tours) must be finite and of constant dimension.",
            "2-dimensional inputs; history length <= 5; Rosomaxa phase monotonicity and elite bounds are decided by C08's search.",
            "DESIGN.md section 5 C19"),
    "C08": ("model_checking",
            "explicit-state search over operation histories of the real populations against a multiset-of-everything-offered reference model",
            "Greedy and Elitism: BFS over all histories of add/add_all/on_generation (12 individuals incl. +-0 and near-equal fitness, 7 batches, 3 speeds) up to depth 5/7 with states merged on observable content and 3 random-answer policies per transition. Rosomaxa: every history up to depth 3/4 after 5 canned prefixes that reach every phase. Every state is rebuilt on the real type by replaying its history; ranked/select/all/size/phase are judged in every state. Consequence: seeded solves through EvolutionConfigBuilder (every order of the calls touching the initial configuration) never return worse than the seed.",
            "Vector example solution type; finite alphabets; the VRP-level seeded solve is part of the pragmatic family checks.",
            "DESIGN.md section 5 C08"),
    "C18": ("exploration",
            "bounded-exhaustive enumeration of reward sequences, fitness triples and generation/fitness histories on the real selector and terminations",
            "Every reward sequence up to depth 5/7 over a 9-value alphabet (0, denormal .. 1e6) is fed to the real SlotMachine with recording and real samplers and the posterior invariants are checked after every prefix; every (initial, best, new) fitness triple over 9 scalars (incl. +-1e308, -0) and 2-objective triples is run through the real DynamicSelective with scripted operators under the virtual clock (rewards read from its telemetry); every (generation, limit), clock read and fitness history of length <= 5/6 is run through MaxGeneration/MaxTime/TargetProximity/MinVariation/Composite against independent arithmetic.",
            "Finite alphabets; argmax/weighted draw from the raw RNG and are explored over a finite set of streams; MinVariation period mode is not covered.",
            "DESIGN.md section 5 C18"),
    "C09": ("exploration",
            "bounded-exhaustive enumeration of all pairs/triples over float alphabets on the real comparison operators",
            "Every ordered pair and triple of insertion-cost vectors (length 0..3/4 over {-1,-0,+0,0.5,1,2}) and of solution contexts whose fitness vectors range over a float alphabet (incl. -0, f64::MAX, NaN) is compared with the real InsertionCost operators and real Goal objects (1-3 single layers; dominance layers as the pragmatic reader builds them); order laws, agreement with numeric lexicographic order and the add/sub inverse law are decided on each.",
            "Finite float alphabets; how +0/-0 compare inside InsertionCost is left open by the property and only checked for order laws.",
            "DESIGN.md section 5 C09"),
    "C16": ("exploration",
            "bounded-exhaustive enumeration of matrix sets and queries against a table-lookup specification",
            "Every matrix set in sizes x profiles x timestamp sets x input orders (injective entry codes, asymmetric) is given to the real providers (core constructors and pragmatic reader) and every (profile, scale, from, to, time, departure/arrival) query is compared with a table-lookup spec; inconsistent sets must be rejected; approximation must be symmetric with zero diagonal.",
            "Matrix sizes <= 3 (4 thorough), <= 3 profiles, <= 4 timestamps; non-integral query times inside a bracket only required to lie between the bracketing values.",
            "DESIGN.md section 5 C16"),
    "C17": ("exploration",
            "bounded-exhaustive enumeration of instances (matrices x start paths; point sets x parameters x orders; split-plan policies) against contract oracles",
            "Every symmetric cost matrix over a small alphabet with every start permutation for LKH (deterministic worker processes, step budget as horizon), every subset of a 3x3 grid with duplicates for DBSCAN under every eps/min_pts/presentation order, every small point set for k-medoids (flat and hierarchical) under all split-plan policies of the parallel wrappers, each judged by straight-line re-definitions of the contracts.",
            "n <= 5 (6-7 for Euclidean grids) nodes; grid geometry only; flat k-medoids only for k <= n.",
            "DESIGN.md section 5 C17"),
    "C13": ("exploration",
            "bounded-exhaustive instance generation over the three grammars, print -> parse -> field-by-field comparison with the generating model",
            "All instances of a finite grid (1-3/4 customers over 60 customer templates x strides x capacity x fleet size) are printed as Solomon, Li&Lim (pairs with non-adjacent cross references) and TSPLIB (depot id != 1, float coordinates) text, parsed by the real readers (rounded and unrounded) and compared with the generating model: ids, coordinates via every matrix entry, demand tuple, windows, service, depot, fleet size, capacity, pairing; every complete Solomon/TSPLIB solution of <= 4 customers is written and read back.",
            "Alphabets are small; TSPLIB fleet size follows the reader's convention (one vehicle per node).",
            "DESIGN.md section 5 C13"),
    "C14": ("model_checking",
            "explicit-state BFS over operation histories of the real Tour/Registry against a Vec/set reference model",
            "All operation histories up to the depth bound over insert_at/insert_last/remove/remove_activity_at (tours) and use/free/get_route/use_route/free_route/deep_copy/deep_slice (registry) are executed on the real types; every reached state is compared with a boring reference model and deep copies are checked for independence with every follow-up operation. The tour state space (all arrangements of the task alphabet) is covered completely.",
            "Alphabet: 3 jobs (two singles, one two-part multi-job), closed and open actor; fleets of 1-3 actors in 1-2 groups. Nothing is said about longer tours than the alphabet allows.",
            "DESIGN.md section 5 C14"),
}

NOT_YET = "check not built yet in this round (work in progress); no claim made"

def main():
    hooks = subprocess.run(["git", "-C", "/repo", "log", "--format=%H %s"], capture_output=True, text=True).stdout.splitlines()
    hook_commits = [l.split()[0] for l in hooks if "verif hook" in l]
    manifest = {
        "version": 1,
        "setup_cmd": "cd /verif && ./setup.sh",
        "hooks": {
            "guard": "--cfg reinterpretcat_vrp_verif",
            "enable": "RUSTFLAGS/--cfg reinterpretcat_vrp_verif via /verif/harness/.cargo/config.toml (build.rustflags), separate target dir /verif/target",
            "baseline_off_cmd": "cd /repo && cargo nextest run --workspace --no-fail-fast --test-threads 8 --offline || cargo test --workspace --no-fail-fast --offline",
            "source_commits": hook_commits,
            "add_only": True,
        },
        "engines": [
            {"name": "vcheck", "path": "/verif/harness", "serves_properties": sorted(CHECKS.keys()),
             "kind_free_text": "hand-rolled stateless/explicit-state explorer driving the real crates (path deps on /repo, hooks on): bounded-exhaustive input enumeration, BFS over operation histories, deviation-bounded enumeration of Random answers, crash-point enumeration of quota polls, split-plan enumeration"},
        ],
        "checks": [],
        "not_applicable": [],
        "notes": "Exit codes: 0 held, 1 violation (VIOLATION line), 2 machinery error (never a verdict). Known findings: /verif/known_findings.json.",
    }
    for pid in ALL:
        if pid in CHECKS:
            cat, tech, text, note, ref = CHECKS[pid]
            manifest["checks"].append({
                "property_id": pid,
                "quick_cmd": f"./check {pid} --tier quick",
                "thorough_cmd": f"./check {pid} --tier thorough",
                "evidence_file": f"/verif/evidence/{pid}.json",
                "replay_cmd_template": f"./check {pid} --replay {{path}}",
                "engine": "vcheck",
                "level_claimed": {"category": cat, "text": text, "design_ref": ref},
                "level_note": note,
                "technique": tech,
            })
        else:
            manifest["not_applicable"].append({"property_id": pid, "reason": NOT_YET})
    json.dump(manifest, open("/verif/MANIFEST.json", "w"), indent=1)
    print("claimed:", sorted(CHECKS.keys()))

if __name__ == "__main__":
    main()
