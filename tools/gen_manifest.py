#!/usr/bin/env python3
"""Generates /verif/MANIFEST.json from the table below (keeps it schema-valid at all times)."""
import json, subprocess, sys

ALL = [f"C{i:02d}" for i in range(1, 21)]

# id -> (category, technique, text, note, design_ref)
CHECKS = {
    "C14": ("model_checking",
            "explicit-state BFS over operation histories of the real Tour/Registry against a Vec/set reference model",
            "All operation histories up to the depth bound over insert_at/insert_last/remove/remove_activity_at (tours) and use/free/get_route/use_route/free_route/deep_copy/deep_slice (registry) are executed on the real types; every reached state is compared with a boring reference model and deep copies are checked for independence with every follow-up operation. The tour state space (all arrangements of the task alphabet) is covered completely.",
            "Alphabet: 3 jobs (two singles, one two-part multi-job), closed and open actor; fleets of 1-3 actors in 1-2 groups. Nothing is said about longer tours than the alphabet allows.",
            "DESIGN.md section 5 C14"),
}

NOT_YET = "check not built yet in this round (work in progress); no claim made"

def main():
    hooks = subprocess.run(["git", "-C", "/repo", "log", "--format=%H %s"], capture_output=True, text=True).stdout.splitlines()
    hook_commits = [l.split()[0] for l in hooks if "verif hook" in l]
    manifest = {
        "version": 1,
        "setup_cmd": "cd /verif && ./setup.sh",
        "hooks": {
            "guard": "--cfg reinterpretcat_vrp_verif",
            "enable": "RUSTFLAGS/--cfg reinterpretcat_vrp_verif via /verif/harness/.cargo/config.toml (build.rustflags), separate target dir /verif/target",
            "baseline_off_cmd": "cd /repo && cargo nextest run --workspace --no-fail-fast --test-threads 8 --offline || cargo test --workspace --no-fail-fast --offline",
            "source_commits": hook_commits,
            "add_only": True,
        },
        "engines": [
            {"name": "vcheck", "path": "/verif/harness", "serves_properties": sorted(CHECKS.keys()),
             "kind_free_text": "hand-rolled stateless/explicit-state explorer driving the real crates (path deps on /repo, hooks on): bounded-exhaustive input enumeration, BFS over operation histories, deviation-bounded enumeration of Random answers, crash-point enumeration of quota polls, split-plan enumeration"},
        ],
        "checks": [],
        "not_applicable": [],
        "notes": "Exit codes: 0 held, 1 violation (VIOLATION line), 2 machinery error (never a verdict). Known findings: /verif/known_findings.json.",
    }
    for pid in ALL:
        if pid in CHECKS:
            cat, tech, text, note, ref = CHECKS[pid]
            manifest["checks"].append({
                "property_id": pid,
                "quick_cmd": f"./check {pid} --tier quick",
                "thorough_cmd": f"./check {pid} --tier thorough",
                "evidence_file": f"/verif/evidence/{pid}.json",
                "replay_cmd_template": f"./check {pid} --replay {{path}}",
                "engine": "vcheck",
                "level_claimed": {"category": cat, "text": text, "design_ref": ref},
                "level_note": note,
                "technique": tech,
            })
        else:
            manifest["not_applicable"].append({"property_id": pid, "reason": NOT_YET})
    json.dump(manifest, open("/verif/MANIFEST.json", "w"), indent=1)
    print("claimed:", sorted(CHECKS.keys()))

if __name__ == "__main__":
    main()
