#!/usr/bin/env python3
"""Regenerates the seed table of DESIGN.md (between the SEEDS markers) from /verif/seeded/*/meta.json."""
import json, glob, os, re
rows = []
for d in sorted(glob.glob('/verif/seeded/*/')):
    m = json.load(open(d + 'meta.json'))
    det = m.get('detection', {})
    title = m.get('title', '')
    prop_titles = [json.loads(l)['title'] for l in open('/verif/properties.jsonl')]
    # sub-agents of the later rounds put the property title into `title`: the change itself is in `mechanism`
    if title.strip() == '' or title.strip() in prop_titles or title.startswith(('Every job is accounted', 'Scientific instance files', 'Routing-cost providers', 'Interrupting the solver')):
        title = m.get('mechanism', title)
        if isinstance(title, dict) or isinstance(title, list):
            title = json.dumps(title)
    rows.append((os.path.basename(d[:-1]), title[:200].replace('|', '/').replace('\n', ' '), det.get('check', '').replace('|', '/'), det.get('note', '').replace('|', '/').replace('\n', ' ')))
table = "| seed | change | caught by | history |\n|---|---|---|---|\n" + "".join(f"| {a} | {b} | {c} | {d} |\n" for a, b, c, d in rows)
p = '/verif/DESIGN.md'
s = open(p).read()
if '<!-- SEEDS-BEGIN -->' in s:
    s = re.sub(r'<!-- SEEDS-BEGIN -->.*?<!-- SEEDS-END -->', '<!-- SEEDS-BEGIN -->\n' + table + '<!-- SEEDS-END -->', s, flags=re.S)
else:
    a = s.index('| seed | change | caught by | history |')
    b = s.index('\n\n', a)
    s = s[:a] + '<!-- SEEDS-BEGIN -->\n' + table + '<!-- SEEDS-END -->' + s[b:]
open(p, 'w').write(s)
print(len(rows), 'seeds')
