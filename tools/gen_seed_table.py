#!/usr/bin/env python3
"""Regenerates the seed table of DESIGN.md (between the SEEDS markers) from /verif/seeded/*/meta.json."""
import json, glob, os, re
rows = []
for d in sorted(glob.glob('/verif/seeded/*/')):
    m = json.load(open(d + 'meta.json'))
    det = m.get('detection', {})
    title = m.get('title', '')
    if title.strip() == '' or title.startswith(('Every job is accounted', 'Scientific instance files', 'Routing-cost providers', 'Interrupting the solver')):
        title = m.get('mechanism', title)
    rows.append((os.path.basename(d[:-1]), title[:140].replace('|', '/').replace('\n', ' '), det.get('check', '').replace('|', '/'), det.get('note', '').replace('|', '/').replace('\n', ' ')))
table = "| seed | change | caught by | history |\n|---|---|---|---|\n" + "".join(f"| {a} | {b} | {c} | {d} |\n" for a, b, c, d in rows)
p = '/verif/DESIGN.md'
s = open(p).read()
if '<!-- SEEDS-BEGIN -->' in s:
    s = re.sub(r'<!-- SEEDS-BEGIN -->.*?<!-- SEEDS-END -->', '<!-- SEEDS-BEGIN -->\n' + table + '<!-- SEEDS-END -->', s, flags=re.S)
else:
    a = s.index('| seed | change | caught by | history |')
    b = s.index('\n\n', a)
    s = s[:a] + '<!-- SEEDS-BEGIN -->\n' + table + '<!-- SEEDS-END -->' + s[b:]
open(p, 'w').write(s)
print(len(rows), 'seeds')
