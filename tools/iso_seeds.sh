#!/bin/bash
# Re-runs archived seeded changes in ISOLATION: a scratch worktree of /repo and a scratch copy of the harness under /tmp/iso,
# evidence/out redirected, so that /repo, /verif/evidence and concurrent ./check runs are never touched.
# usage: iso_seeds.sh [pattern]   -> /verif/out/seed_rerun.tsv (copied to seeded/RERUN.tsv by hand)
ISO=/tmp/iso
PAT=${1:-*}
rm -rf $ISO/harness $ISO/outroot; mkdir -p $ISO/outroot
[ -d $ISO/repo ] && git -C /repo worktree remove --force $ISO/repo
git -C /repo worktree add --detach $ISO/repo HEAD -q || exit 2
mkdir -p $ISO/harness && cp -r /verif/harness/src /verif/harness/Cargo.toml /verif/harness/Cargo.lock $ISO/harness/
mkdir -p $ISO/harness/.cargo
sed -i "s#/repo/#$ISO/repo/#g" $ISO/harness/Cargo.toml
printf '[net]\noffline = true\n\n[build]\nrustflags = ["--cfg", "reinterpretcat_vrp_verif"]\ntarget-dir = "%s/target"\n' $ISO > $ISO/harness/.cargo/config.toml
OUT=/verif/out/seed_rerun.tsv
: > $OUT
build() { (cd $ISO/harness && CARGO_NET_OFFLINE=true nice cargo build --release --offline > $ISO/build.log 2>&1); }
for d in /verif/seeded/$PAT/; do
  s=$(basename $d)
  id=${s%%-*}
  chk=$(python3 -c "
import json,re
m=json.load(open('$d/meta.json'))
c=m.get('detection',{}).get('check','')
r=re.match(r'(C\d\d)',c)
print(r.group(1) if r else '$id')")
  if ! git -C $ISO/repo apply --check $d/patch.diff 2>/dev/null; then echo -e "$s\t$chk\tpatch-does-not-apply" >> $OUT; continue; fi
  git -C $ISO/repo apply $d/patch.diff
  if build; then
    VERIF_OUT_ROOT=$ISO/outroot nice $ISO/target/release/vcheck $chk --tier quick > $ISO/run.log 2>&1; rc=$?
    keys=$(grep -E "^  key=" $ISO/run.log | sed 's/ ::.*//;s/^  key=//' | sort -u | head -3 | tr '\n' ' ')
    echo -e "$s\t$chk\texit=$rc\t$keys" >> $OUT
  else
    echo -e "$s\t$chk\tbuild-failed" >> $OUT
  fi
  git -C $ISO/repo checkout -- .
done
git -C /repo worktree remove --force $ISO/repo
rm -rf $ISO
cat $OUT
