#!/usr/bin/env python3
"""Archives a confirmed seeded change: keep_seed.py <worktree> <n> <ID> <detected_by> <note> [<archive index, default n>]"""
import json, os, shutil, sys, glob
wt, n, pid, detected, note = sys.argv[1:6]
dst_n = sys.argv[6] if len(sys.argv) > 6 else n
src = f"{wt}/out/{n}"
dst = f"/verif/seeded/{pid}-{dst_n}"
os.makedirs(dst, exist_ok=True)
for f in glob.glob(src + "/*"):
    base = os.path.basename(f)
    if base.endswith(".log") and os.path.getsize(f) > 20000:
        continue
    if os.path.isfile(f):
        shutil.copy(f, dst)
meta = json.load(open(f"{src}/meta.json"))
confirm = json.load(open(f"{src}/confirm.json")) if os.path.exists(f"{src}/confirm.json") else {}
meta["property"] = pid
meta["confirmed_by_me"] = {
    "how": "tools/confirm_seed.sh in the scratch worktree: demo with change (must fail), full workspace suite with change (must pass), demo without change (must pass)",
    **confirm,
}
meta["detection"] = {"check": detected, "note": note, "how": "tools/run_seed.sh: git -C /repo apply patch.diff; ./check <ID> --tier quick; git -C /repo checkout -- ."}
json.dump(meta, open(f"{dst}/meta.json", "w"), indent=1)
print("kept", dst)
