#!/bin/bash
# Re-runs every archived seeded change against the current checks: rerun_seeds.sh [pattern]  -> /verif/out/seed_rerun.tsv
# (applies the patch to /repo, runs the check named in the detection record, reverts). /repo must be clean.
cd /repo && git diff --quiet || { echo "repo dirty"; exit 2; }
OUT=/verif/out/seed_rerun.tsv
mkdir -p /verif/out
: > $OUT
for d in /verif/seeded/${1:-*}/; do
  s=$(basename $d)
  id=${s%%-*}
  # the check which is recorded as catching it (first token of detection.check), default: the property's own
  chk=$(python3 -c "
import json,re,sys
m=json.load(open('$d/meta.json'))
c=m.get('detection',{}).get('check','')
r=re.match(r'(C\d\d)',c)
print(r.group(1) if r else '$id')")
  if ! git -C /repo apply --check $d/patch.diff 2>/dev/null; then echo -e "$s\t$chk\tpatch-does-not-apply" >> $OUT; continue; fi
  git -C /repo apply $d/patch.diff
  cd /verif && nice ./check $chk --tier quick > /tmp/seed_rerun_$s.log 2>&1; rc=$?
  git -C /repo checkout -- .
  keys=$(grep -E "^  key=" /tmp/seed_rerun_$s.log | sed 's/ ::.*//;s/^  key=//' | sort -u | head -3 | tr '\n' ' ')
  echo -e "$s\t$chk\texit=$rc\t$keys" >> $OUT
  rm -f /tmp/seed_rerun_$s.log
done
# leave the harness built against the clean tree
cd /verif && ./check C16 --tier quick >/dev/null 2>&1
cat $OUT
