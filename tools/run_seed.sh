#!/bin/bash
# Runs a check against /repo with a seeded change applied, then reverts. usage: run_seed.sh <patch.diff> <ID> [tier]
PATCH=$1; ID=$2; TIER=${3:-quick}
cd /repo && git diff --quiet || { echo "repo dirty"; exit 2; }
git -C /repo apply $PATCH || { echo "patch does not apply"; exit 2; }
# evidence and artefacts of the seeded run go to a scratch root: /verif/evidence keeps describing the real tree
cd /verif && VERIF_OUT_ROOT=/tmp/seedrun_out ./check $ID --tier $TIER > /tmp/seed_run_$ID.log 2>&1; RC=$?
git -C /repo checkout -- .
tail -4 /tmp/seed_run_$ID.log
echo "seed_run exit=$RC"
# restore evidence for the clean tree is the caller's job
