#!/bin/bash
# Confirms a seeded change in a scratch worktree: demo fails with it / passes without it; existing suite passes with it.
# usage: confirm_seed.sh <worktree> <n>
WT=$1; N=$2
OUT=$WT/out/$N
export CARGO_NET_OFFLINE=true CARGO_TARGET_DIR=$WT/target
cd $WT || exit 2
git checkout -q -- . ; git clean -qfd -e out -e target
DEMO_CMD=$(python3 -c "import json;print(json.load(open('$OUT/meta.json'))['demo_command'])")
git apply $OUT/patch.diff || { echo '{"error":"patch does not apply"}' > $OUT/confirm.json; exit 1; }
if [ -f $OUT/demo.diff ]; then git apply $OUT/demo.diff 2>/dev/null || true; fi
# fall back: copy demo files named in meta if demo.diff did not create them
bash -c "$DEMO_CMD" > $OUT/confirm_demo_with.log 2>&1; WITH=$?
# existing suite with the change but without the demo files
git clean -qfd -e out -e target
cargo test --workspace --offline --no-fail-fast -j8 -- --test-threads 8 > $OUT/confirm_suite_with.log 2>&1; SUITE=$?
PASSED=$(grep -h "^test result" $OUT/confirm_suite_with.log | awk '{p+=$4; f+=$6} END {print p" "f}')
git checkout -q -- .
if [ -f $OUT/demo.diff ]; then git apply $OUT/demo.diff 2>/dev/null || true; fi
bash -c "$DEMO_CMD" > $OUT/confirm_demo_without.log 2>&1; WITHOUT=$?
git checkout -q -- . ; git clean -qfd -e out -e target
echo "{\"demo_exit_with_change\": $WITH, \"demo_exit_without_change\": $WITHOUT, \"suite_exit_with_change\": $SUITE, \"suite_passed_failed\": \"$PASSED\"}" > $OUT/confirm.json
cat $OUT/confirm.json
