#!/bin/bash
# False-alarm probe: applies an archived seeded change and runs EVERY check (quick): cross_check.sh <seed> ...  -> /verif/out/cross_check.tsv
# A check other than the seed's own which exits 1 must be explained (the change breaks that property too) or is a false alarm.
cd /repo && git diff --quiet || { echo "repo dirty"; exit 2; }
OUT=/verif/out/cross_check.tsv
for s in "$@"; do
  d=/verif/seeded/$s
  git -C /repo apply --check $d/patch.diff 2>/dev/null || { echo -e "$s\t-\tpatch-does-not-apply" >> $OUT; continue; }
  git -C /repo apply $d/patch.diff
  for id in C01 C02 C03 C04 C05 C06 C07 C08 C09 C10 C11 C12 C13 C14 C15 C16 C17 C18 C19 C20; do
    cd /verif && nice ./check $id --tier quick > /tmp/cross_$s_$id.log 2>&1; rc=$?
    if [ $rc -ne 0 ]; then keys=$(grep -E "^  key=|MACHINERY" /tmp/cross_$s_$id.log | sed 's/ ::.*//;s/^  key=//' | sort -u | head -3 | tr '\n' ' '); echo -e "$s\t$id\texit=$rc\t$keys" >> $OUT; fi
    rm -f /tmp/cross_$s_$id.log
  done
  echo -e "$s\tdone" >> $OUT
  git -C /repo checkout -- .
done
cd /verif && ./check C16 --tier quick >/dev/null 2>&1
