// LD_PRELOAD shim: makes getrandom(2) (hence std's RandomState keys) a function of VERIF_HASH_SEED,
// so that HashMap/HashSet iteration order is pinned per process (DESIGN section 2, N6).
#define _GNU_SOURCE
#include <stddef.h>
#include <stdint.h>
#include <stdlib.h>
#include <sys/types.h>

static uint64_t state = 0;
static int initialised = 0;

static uint64_t next(void) {
    // splitmix64
    uint64_t z = (state += 0x9e3779b97f4a7c15ULL);
    z = (z ^ (z >> 30)) * 0xbf58476d1ce4e5b9ULL;
    z = (z ^ (z >> 27)) * 0x94d049bb133111ebULL;
    return z ^ (z >> 31);
}

static void init(void) {
    if (!initialised) {
        const char *s = getenv("VERIF_HASH_SEED");
        state = s ? strtoull(s, NULL, 10) : 0;
        state = state * 0x2545F4914F6CDD1DULL + 0x1234567ULL;
        initialised = 1;
    }
}

ssize_t getrandom(void *buf, size_t buflen, unsigned int flags) {
    (void)flags;
    init();
    unsigned char *p = (unsigned char *)buf;
    size_t i = 0;
    while (i < buflen) {
        uint64_t v = next();
        for (int k = 0; k < 8 && i < buflen; k++, i++) p[i] = (unsigned char)(v >> (8 * k));
    }
    return (ssize_t)buflen;
}

int getentropy(void *buf, size_t buflen) {
    return getrandom(buf, buflen, 0) == (ssize_t)buflen ? 0 : -1;
}
