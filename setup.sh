#!/bin/bash
# Builds the framework from files on disk only (offline).
set -e
cd /verif/harness
export CARGO_NET_OFFLINE=true
mkdir -p /verif/target /verif/evidence
gcc -shared -fPIC -O2 -o /verif/target/libverifshim.so /verif/shim/getrandom.c -ldl
cargo build --release --offline
echo "setup ok"
